#!/bin/sh
# MANIFEST.setup_cmd: pre-build the harness in the configurations the quick tier uses (offline).
set -e
cd "$(dirname "$0")"
export CARGO_NET_OFFLINE=true
./check build dbg,rel,asan
