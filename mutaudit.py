#!/usr/bin/env python3
"""Systematic syntactic-mutant audit: ./mutaudit.py [--n N] [--jobs J] [--seed S] [--out FILE]

Generates small syntactic mutants of the owlchess sources (comparison / boolean / arithmetic
operator swaps, +-1, colour / side / file swaps, literal tweaks, statement deletion), applies each
to a scratch git worktree of /repo under /tmp (a pool of J persistent worktrees, removed at the
end), and records
  * whether it compiles and whether the repository's own test suite still passes, and
  * for the mutants that survive the test suite: which quick check (dbg,rel) is the first to
    report a VIOLATION, trying the checks most related to the mutated file first.
Mutants that no check reports are listed as survivors for manual triage (equivalent mutant, or a
gap in the monitors). Nothing is ever written to /repo.
"""
import concurrent.futures
import json
import os
import queue
import random
import re
import shutil
import subprocess
import sys
import time

VERIF = os.path.dirname(os.path.abspath(__file__))
FILES = [
    "chess/src/movegen.rs", "chess/src/legal.rs", "chess/src/moves/base.rs", "chess/src/moves/make.rs",
    "chess/src/moves/san.rs", "chess/src/moves/uci.rs", "chess/src/board.rs", "chess/src/chain.rs",
    "chess/src/castling.rs", "chess/src/pawns.rs", "chess/src/between.rs", "chess/src/attack.rs",
    "chess/build.rs", "chess_base/src/types.rs", "chess_base/src/bitboard.rs", "chess_base/src/geometry.rs",
    "chess_base/src/bitboard_consts.rs",
]
ALL = ["C%02d" % i for i in range(1, 21)]
RELATED = {
    "movegen.rs": ["C06", "C01", "C16", "C07", "C09", "C19"],
    "legal.rs": ["C01", "C07", "C09", "C02"],
    "base.rs": ["C03", "C04", "C05", "C06", "C02", "C13"],
    "make.rs": ["C02", "C13", "C04"],
    "san.rs": ["C09", "C12", "C02"],
    "uci.rs": ["C10", "C12", "C17", "C02"],
    "board.rs": ["C11", "C08", "C07", "C12", "C02", "C05"],
    "chain.rs": ["C13", "C14", "C17", "C12"],
    "castling.rs": ["C06", "C03", "C01"],
    "pawns.rs": ["C06", "C01"],
    "between.rs": ["C15", "C01", "C06"],
    "attack.rs": ["C15", "C16", "C01"],
    "build.rs": ["C15", "C05", "C01", "C16"],
    "types.rs": ["C20", "C12", "C08", "C14"],
    "bitboard.rs": ["C20", "C15", "C01"],
    "geometry.rs": ["C20", "C06", "C03"],
    "bitboard_consts.rs": ["C20", "C07", "C15"],
}

SWAPS = [
    (r"==", "!="), (r"!=", "=="), (r"<=", "<"), (r">=", ">"), (r"(?<![<>=!-])<(?![<=])", "<="), (r"(?<![<>=-])>(?![>=])", ">="),
    (r"&&", "||"), (r"\|\|", "&&"), (r" \+ 1\b", " - 1"), (r" - 1\b", " + 1"), (r" \+ 1\b", ""), (r" - 1\b", ""),
    (r"Color::White", "Color::Black"), (r"Color::Black", "Color::White"),
    (r"CastlingSide::King", "CastlingSide::Queen"), (r"CastlingSide::Queen", "CastlingSide::King"),
    (r"File::A\b", "File::H"), (r"File::H\b", "File::A"), (r"File::G\b", "File::C"), (r"File::C\b", "File::G"), (r"File::F\b", "File::D"), (r"File::D\b", "File::F"),
    (r"Piece::Bishop", "Piece::Rook"), (r"Piece::Rook", "Piece::Bishop"), (r"Piece::Knight", "Piece::King"), (r"Piece::Queen", "Piece::Rook"),
    (r"\btrue\b", "false"), (r"\bfalse\b", "true"),
    (r"\^=", "|="), (r"\|=", "^="), (r"&= !", "&= "), (r" & ", " | "), (r" \| ", " & "), (r" \^ ", " | "),
    (r"\b150\b", "151"), (r"\b100\b", "101"), (r"\b100\b", "99"), (r"\b16\b", "15"), (r"\b16\b", "17"), (r"\b5\b", "6"), (r"\b3\b", "4"), (r"\b8\b", "7"), (r"\b64\b", "63"), (r"\b56\b", "48"), (r"\b7\b", "6"), (r"\b2\b", "3"),
    (r"\.shr\(", ".shl("), (r"\.shl\(", ".shr("), (r"\.inv\(\)", ""), (r"is_empty\(\)", "is_nonempty()"), (r"is_nonempty\(\)", "is_empty()"),
    (r"is_free\(\)", "is_occupied()"), (r"is_occupied\(\)", "is_free()"), (r"\.is_some\(\)", ".is_none()"), (r"\.is_none\(\)", ".is_some()"),
    (r"\.src\(\)", ".dst()"), (r"\.dst\(\)", ".src()"), (r"mv\.src\b", "mv.dst"), (r"mv\.dst\b", "mv.src"),
    (r"saturating_add", "wrapping_add"), (r"-geometry::", "geometry::"),
]


def candidates(root):
    out = []
    for rel in FILES:
        path = os.path.join(root, rel)
        lines = open(path).read().split("\n")
        in_tests = False
        for i, line in enumerate(lines):
            s = line.strip()
            if s.startswith("#[cfg(test)]"):
                in_tests = True
            if in_tests:
                continue
            if not s or s.startswith("//") or s.startswith("#[") or s.startswith("use ") or s.startswith("pub use") or "verif" in s or s.startswith("///") or s.startswith("//!"):
                continue
            if "assert" in s or "panic!" in s or "#[error" in s or "write!" in s and '"' in s and "=" not in s.split('"')[0]:
                pass
            code = line.split("//")[0]
            generic = any(t in code for t in ("fn ", "impl", "::<", "->", "Vec<", "Option<", "Result<", "<'", "PhantomData<", "Iterator<", "ArrayVec<", "HashMap<", "struct ", "type "))
            if 'write!(f, "{} ' in code or "as_long_str" in code or "#[display" in code:
                continue
            for pat, rep in SWAPS:
                if generic and ("<" in pat or ">" in pat):
                    continue
                for m in re.finditer(pat, code):
                    new = code[:m.start()] + rep + code[m.end():] + line[len(code):]
                    if new != line:
                        out.append({"file": rel, "line": i + 1, "old": line, "new": new, "op": "%s -> %s" % (pat, rep)})
            # statement deletion: simple statements that update state
            if re.match(r"^\s*(\*?b\.|self\.|raw\.|res\.|\*self|\*b\.)[\w\.\(\):, <>&\*\[\]]*\s*(\^=|\|=|&=|=|\+=|-=)[^=].*;\s*$", code) and "let " not in code:
                out.append({"file": rel, "line": i + 1, "old": line, "new": re.sub(r"\S.*$", "// deleted by mutant", line), "op": "delete statement"})
    return out


def sh(cmd, cwd=None, env=None, timeout=None):
    try:
        p = subprocess.run(cmd, cwd=cwd, env=env, stdout=subprocess.PIPE, stderr=subprocess.STDOUT, text=True, timeout=timeout, errors="replace")
        return p.returncode, p.stdout
    except subprocess.TimeoutExpired as e:
        return -999, "timeout"


def work(mut, pool, configs):
    wt = pool.get()
    res = dict(mut)
    try:
        path = os.path.join(wt, mut["file"])
        lines = open(path).read().split("\n")
        if lines[mut["line"] - 1] != mut["old"]:
            res["status"] = "stale"
            return res
        lines[mut["line"] - 1] = mut["new"]
        open(path, "w").write("\n".join(lines))
        env = dict(os.environ, CARGO_NET_OFFLINE="true")
        rc, out = sh(["cargo", "test", "--workspace", "--no-fail-fast", "--offline", "-q"], cwd=wt, env=env, timeout=900)
        if rc != 0:
            res["status"] = "compile_error" if ("error[" in out or "error:" in out and "test result" not in out) else "killed_by_repo_tests"
            if rc == -999:
                res["status"] = "repo_tests_timeout"
            return res
        cenv = dict(os.environ, OWLVERIF_REPO=wt, OWLVERIF_TARGET=os.path.join(wt, "vt"), OWLVERIF_WORK=os.path.join(wt, "work"))
        base = os.path.basename(mut["file"])
        order = RELATED.get(base, []) + [p for p in ALL if p not in RELATED.get(base, [])]
        res["status"] = "SURVIVED"
        res["silent"] = []
        for p in order:
            rc, out = sh([os.path.join(VERIF, "check"), p, "--tier", "quick", "--configs", configs], cwd=VERIF, env=cenv, timeout=3600)
            if rc == 1:
                res["status"] = "caught"
                res["caught_by"] = p
                m = re.search(r"clause=(\S+)", out)
                res["clause"] = m.group(1) if m else None
                break
            if rc == 2:
                res.setdefault("inconclusive", []).append(p)
                if "build of configuration" in out:
                    res["status"] = "harness_build_failed"
                    break
            else:
                res["silent"].append(p)
        return res
    finally:
        sh(["git", "checkout", "--", "."], cwd=wt)
        pool.put(wt)


def main():
    n, jobs, seed, out, configs = 120, 4, 7, os.path.join(VERIF, "mutants", "results.jsonl"), "dbg,rel"
    args = sys.argv[1:]
    i = 0
    while i < len(args):
        if args[i] == "--n":
            n = int(args[i + 1]); i += 1
        elif args[i] == "--jobs":
            jobs = int(args[i + 1]); i += 1
        elif args[i] == "--seed":
            seed = int(args[i + 1]); i += 1
        elif args[i] == "--out":
            out = args[i + 1]; i += 1
        elif args[i] == "--configs":
            configs = args[i + 1]; i += 1
        i += 1
    os.makedirs(os.path.dirname(out), exist_ok=True)
    cands = candidates("/repo")
    rnd = random.Random(seed)
    # stratified by file: at most n * share per file
    by_file = {}
    for c in cands:
        by_file.setdefault(c["file"], []).append(c)
    picked = []
    files = sorted(by_file)
    while len(picked) < n and any(by_file.values()):
        for f in files:
            if by_file[f] and len(picked) < n:
                picked.append(by_file[f].pop(rnd.randrange(len(by_file[f]))))
    print("candidates: %d, picked: %d" % (len(cands), len(picked)), flush=True)
    pool = queue.Queue()
    wts = []
    for j in range(jobs):
        wt = "/tmp/mut_%d" % j
        sh(["git", "-C", "/repo", "worktree", "remove", "--force", wt])
        shutil.rmtree(wt, ignore_errors=True)
        sh(["git", "-C", "/repo", "worktree", "add", "-q", "--detach", wt, "HEAD"])
        wts.append(wt)
        pool.put(wt)
    t0 = time.time()
    done = 0
    with open(out, "a") as f, concurrent.futures.ThreadPoolExecutor(max_workers=jobs) as ex:
        for r in ex.map(lambda m: work(m, pool, configs), picked):
            done += 1
            f.write(json.dumps(r) + "\n")
            f.flush()
            print("[%d/%d %.0fs] %s:%d %s -> %s %s" % (done, len(picked), time.time() - t0, r["file"], r["line"], r["op"], r["status"], r.get("caught_by", "")), flush=True)
    for wt in wts:
        sh(["git", "-C", "/repo", "worktree", "remove", "--force", wt])
        shutil.rmtree(wt, ignore_errors=True)


if __name__ == "__main__":
    main()
