//! Position stream shared by the position-driven monitors: runs the generators, filters through
//! validation (model and library must agree; disagreement is C11's business and is only counted
//! here), announces each case, and polls the hook observers after each callback.

use crate::conv::{from_raw, to_board};
use crate::ctx::Ctx;
use crate::gen;
use crate::hooks;
use crate::mfen::to_xfen;
use crate::model::*;
use owlchess::Board;

#[derive(Clone, Debug)]
pub struct Sources {
    pub fixed: bool,
    /// number of random positions to *attempt* per family kind
    pub family_each: u64,
    /// number of random games and their length
    pub walks: u64,
    pub walk_plies: usize,
    pub scattered: u64,
    /// number of three-man indices to sample (u64::MAX = this shard's whole slice)
    pub three_man: u64,
    /// also visit the colour-swapped mirror of every n-th position (0 = never)
    pub mirror_every: u64,
}

impl Sources {
    /// Split a nominal per-shard position budget over the sources.
    pub fn standard(n: u64) -> Sources {
        if n < 50 {
            // tiny budgets (Miri): a few positions from every source
            return Sources { fixed: true, family_each: 1, walks: 1, walk_plies: (n as usize).clamp(2, 8), scattered: n.max(2), three_man: 0, mirror_every: 0 };
        }
        Sources {
            fixed: true,
            family_each: (n / 20).max(2),
            walks: (n / 200).max(1),
            walk_plies: 80,
            scattered: (n / 4).max(2),
            three_man: 0,
            mirror_every: 5,
        }
    }
}

pub type PosFn<'a> = dyn FnMut(&mut Ctx, &MPos, &Board) + 'a;

/// Drift reported by the apply/undo observer is a violation only for the properties whose
/// statement covers derived state; elsewhere it is recorded as a note.
fn drift_is_violation(prop: &str) -> bool {
    matches!(prop, "C02" | "C04" | "C05" | "C13" | "C17")
}

pub fn poll_hooks(ctx: &mut Ctx, case: &str) {
    let drift = hooks::take_drift();
    if !drift.is_empty() {
        if drift_is_violation(&ctx.prop) {
            for d in &drift {
                ctx.violation("derived_state_drift", case, d);
            }
        } else if ctx.notes.len() < 5 {
            ctx.notes.push(format!("derived-state drift observed (C05's business) at {}: {}", case, drift[0]));
        }
    }
    let of = hooks::take_overflow();
    if !of.is_empty() && ctx.prop != "C19" && ctx.notes.len() < 5 {
        ctx.notes.push(format!("move list overflow observed (C19's business) at {}: {}", case, of[0]));
    } else if !of.is_empty() {
        for o in &of {
            ctx.violation("move_list_overflow", case, o);
        }
    }
}

/// Offer one raw model position: normalise, validate both ways, run the callback.
pub fn offer(ctx: &mut Ctx, raw: &MPos, tag: &str, f: &mut PosFn) -> bool {
    if ctx.miri_full() {
        return false;
    }
    // validity is judged on the raw input (normalisation never changes it); the board is built by
    // the library from the *un-normalised* input, and the monitors go on with what the library made
    // of it. Where that differs from the model's normalisation it is C11's business (counted here).
    if !raw.is_valid() {
        ctx.feature("src_invalid_skipped");
        return false;
    }
    let rcase = format!("raw:{}", to_xfen(raw));
    let board = match ctx.guard("try_from", &rcase, || to_board(raw)) {
        Some(Ok(b)) => b,
        Some(Err(_)) => {
            ctx.feature("validation_disagreement_skipped");
            return false;
        }
        None => return false,
    };
    let mp = from_raw(board.raw());
    if mp != raw.normalized() {
        ctx.feature("normalisation_disagreement_seen");
        if !mp.is_valid() {
            return false;
        }
    }
    let case = format!("pos:{}", to_xfen(&mp));
    ctx.begin_case(&case);
    ctx.feature(&format!("src_{}", tag));
    f(ctx, &mp, &board);
    poll_hooks(ctx, &case);
    true
}

pub fn run(ctx: &mut Ctx, src: &Sources, f: &mut PosFn) {
    let mut count: u64 = 0;
    let mirror_every = src.mirror_every;
    let mut visit = |ctx: &mut Ctx, p: &MPos, tag: &str, f: &mut PosFn| {
        if offer(ctx, p, tag, f) {
            count += 1;
            if mirror_every > 0 && count % mirror_every == 0 {
                offer(ctx, &p.mirror_v(), "mirror", f);
            }
        }
    };

    if src.fixed {
        let miri = ctx.config == "miri";
        if miri {
            // two fixed corners per shard, rotating with the seed (parsing them all is slow there)
            let start = (ctx.shard * 11 + ctx.seed as usize) % gen::FIXED_FENS.len();
            for (_, p) in gen::fixed_positions_slice(start, 2) {
                visit(ctx, &p, "fixed", f);
            }
        }
        for (i, p) in (if miri { Vec::new() } else { gen::fixed_positions() }).iter().enumerate() {
            if ctx.mine(i as u64) {
                visit(ctx, p, "fixed", f);
                // fixed corners always get their mirror too
                offer(ctx, &p.mirror_v(), "fixed_mirror", f);
            }
        }
    }

    type Fam = fn(&mut crate::rng::Rng) -> MPos;
    let fams: [(&str, Fam); 10] = [
        ("fam_checkerboard", gen::fam_checkerboard),
        ("fam_odd_marks", gen::fam_odd_marks),
        ("fam_ep_stalemate", gen::fam_ep_stalemate),
        ("fam_enpassant", gen::fam_enpassant),
        ("fam_pin", gen::fam_pin),
        ("fam_check", gen::fam_check),
        ("fam_castle", gen::fam_castle),
        ("fam_promo", gen::fam_promo),
        ("fam_material", gen::fam_material),
        ("fam_mobility", gen::fam_mobility),
    ];
    for (tag, fam) in fams {
        for _ in 0..src.family_each {
            let p = fam(&mut ctx.rng);
            visit(ctx, &p, tag, f);
        }
    }

    if src.walks > 0 {
        let starts: Vec<MPos> = if ctx.light() { gen::fixed_positions_slice(ctx.shard * 7, 3).into_iter().map(|x| x.1).collect() } else { gen::fixed_positions() };
        for _ in 0..src.walks {
            let start = if ctx.rng.chance(1, 3) {
                starts[0].clone()
            } else {
                let mut s = ctx.rng.pick(&starts).clone();
                if ctx.rng.chance(1, 4) {
                    gen::random_counters(&mut ctx.rng, &mut s);
                }
                s.normalized()
            };
            if !start.is_valid() {
                continue;
            }
            let mut line: Vec<MPos> = Vec::new();
            let mut rng = ctx.rng.clone();
            gen::game_walk(&mut rng, &start, src.walk_plies, &mut |p, _| line.push(p.clone()));
            ctx.rng = rng;
            for p in &line {
                visit(ctx, p, "walk", f);
            }
        }
    }

    for _ in 0..src.scattered {
        let p = gen::scattered(&mut ctx.rng);
        visit(ctx, &p, "scattered", f);
    }

    if src.three_man > 0 {
        let total = gen::THREE_MAN_TOTAL;
        if src.three_man == u64::MAX {
            let mut idx = ctx.shard as u64;
            while idx < total {
                if let Some(p) = gen::three_man(idx) {
                    offer(ctx, &p, "three_man", f);
                }
                idx += ctx.nshards as u64;
            }
            if ctx.shard == 0 {
                ctx.exhaustive_parts.push("all placements of two kings plus one further man, both sides to move".into());
            }
        } else {
            for _ in 0..src.three_man {
                let idx = ctx.rng.next_u64() % total;
                if let Some(p) = gen::three_man(idx) {
                    offer(ctx, &p, "three_man_sample", f);
                }
            }
        }
    }
}
