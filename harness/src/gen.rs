//! Seeded position generators (G1 game walks, G2 scattered positions, G3 structured
//! families, G4 three-man enumeration, G5 mirrors). All output is in model terms.

use crate::mfen;
use crate::model::*;
use crate::rng::Rng;

/// Fixed start / corner positions (seed independent). Standard FEN, parsed by the model reader.
pub const FIXED_FENS: &[&str] = &[
    "rnbqkbnr/pppppppp/8/8/8/8/PPPPPPPP/RNBQKBNR w KQkq - 0 1",
    // perft suite (CPW)
    "r3k2r/p1ppqpb1/bn2pnp1/3PN3/1p2P3/2N2Q1p/PPPBBPPP/R3K2R w KQkq - 0 1",
    "8/2p5/3p4/KP5r/1R3p1k/8/4P1P1/8 w - - 0 1",
    "r3k2r/Pppp1ppp/1b3nbN/nP6/BBP1P3/q4N2/Pp1P2PP/R2Q1RK1 w kq - 0 1",
    "r2q1rk1/pP1p2pp/Q4n2/bbp1p3/Np6/1B3NBn/pPPP1PPP/R3K2R b KQ - 0 1",
    "rnbq1k1r/pp1Pbppp/2p5/8/2B5/8/PPP1NnPP/RNBQK2R w KQ - 1 8",
    "r4rk1/1pp1qppp/p1np1n2/2b1p1B1/2B1P1b1/P1NP1N2/1PP1QPPP/R4RK1 w - - 0 10",
    // en-passant discovered check on the rank (both pawns leave the king's rank)
    "8/8/8/K2Pp2r/8/8/8/7k w - e6 0 1",
    "8/8/8/r2pP2K/8/8/8/k7 w - d6 0 1",
    "7K/8/8/8/k2pP2R/8/8/8 b - e3 0 1",
    "K7/8/8/8/R2Pp2k/8/8/8 b - d3 0 1",
    "8/8/8/KP1p3q/8/8/8/7k w - d6 0 1",
    "8/8/8/1K1Pp1r1/8/8/8/7k w - e6 3 9",
    // en passant opening a diagonal through the captured pawn
    "7K/8/8/3Pp3/8/2b5/8/k7 w - e6 0 1",
    "K7/8/8/3pP3/8/5b2/8/7k w - d6 0 1",
    "k7/8/2B5/8/3pP3/8/8/7K b - e3 0 1",
    // en passant with the capturer pinned (file, diagonal), legal along the pin / illegal
    "4r2k/8/8/3pP3/8/8/8/4K3 w - d6 0 1",
    "7k/8/8/2bpP3/8/8/8/6K1 w - d6 0 1",
    "7k/b7/8/2PpP3/8/8/6K1/8 w - d6 0 1",
    "7k/8/8/3pP3/8/8/8/B3K3 w - d6 0 1",
    // en passant is the only evasion / captures the checking pawn
    "8/8/8/2k5/3Pp3/8/8/4K3 b - d3 0 1",
    "8/8/8/3pP3/2K5/8/8/7k w - d6 0 1",
    // en passant gives check; two capturers
    "8/8/3k4/2pPp3/8/8/8/4K3 w - e6 0 1",
    "8/8/8/8/2PpP3/8/5k2/7K b - c3 0 1",
    "8/8/8/2PpP3/8/8/5k1K/8 w - d6 0 1",
    // a- and h-file en passant
    "4k3/8/8/pP6/8/8/8/4K3 w - a6 0 1",
    "4k3/8/8/6Pp/8/8/8/4K3 w - h6 0 1",
    "4k3/8/8/8/Pp6/8/8/4K3 b - a3 0 1",
    "4k3/8/8/8/6pP/8/8/4K3 b - h3 0 1",
    // in check along the fourth/fifth rank; the only legal move is a double pawn push interposing
    "2k5/8/8/2q5/r6K/1r6/4P3/8 w - - 0 1",
    "2k5/8/8/2q5/r6K/1r6/6P1/8 w - - 0 1",
    "2k5/8/8/2q5/r6K/1r6/2P5/8 w - - 0 1",
    "8/4p3/1R6/R6k/2Q5/8/8/2K5 b - - 0 1",
    // the only legal move is a promotion / an under-promotion capture / a castling-free king step
    "k7/2P5/1K6/8/8/8/8/8 w - - 0 1",
    "1r5k/P5pp/8/8/8/8/8/K7 w - - 0 1",
    // a double push gives check and the only legal reply is the en-passant capture of that pawn
    "7k/3p4/4p3/2p1P1p1/4K3/3PPP2/8/8 b - - 0 1",
    "8/8/3ppp2/4k3/2P1p1P1/4P3/3P4/7K w - - 0 1",
    // capture of a checker / pinner that has a second slider behind it
    "4q3/8/8/4r3/8/2B5/8/4K2k w - - 0 1",
    "4q3/4r3/8/8/8/8/4R3/4K2k w - - 0 1",
    "7k/8/8/8/7b/6p1/5P2/4K3 w - - 0 1",
    // two capturers beside the double-stepped pawn, one of them pinned
    "4r2k/8/8/3PpP2/8/8/8/4K3 w - e6 0 1",
    "k7/8/8/2PpP3/8/8/8/3K2q1 w - d6 0 1",
    // stalemate shape: the only pseudo-legal move is an en passant that uncovers the king
    "2b4k/p7/1n6/KPp4r/8/8/8/8 w - c6 0 1",
    "k4b2/7p/6n1/r4pPK/8/8/8/8 w - f6 0 1",
    "2b4k/p7/1n6/KPp4q/8/8/8/8 w - c6 150 9",
    // pins in all directions
    "4k3/4r3/8/8/4R3/8/8/4K3 w - - 0 1",
    "4k3/8/8/b7/8/2N5/8/4K3 w - - 0 1",
    "4k3/8/8/8/8/8/8/r2BK3 w - - 0 1",
    "k7/8/8/8/q2PK3/8/8/8 w - - 0 1",
    "4k3/8/8/8/7b/8/5P2/4K3 w - - 0 1",
    "4k3/8/8/8/7b/6P1/8/4K3 w - - 0 1",
    "8/8/8/8/k7/8/2Q5/3K3r w - - 0 1",
    // double check, discovered check
    "4k3/8/8/8/8/5n2/8/4K2r w - - 0 1",
    "4k3/8/5N2/8/8/8/8/4RK2 b - - 0 1",
    "r3k3/8/8/8/8/8/3n4/R3K2R w KQq - 0 1",
    // castling: every obstruction kind
    "r3k2r/8/8/8/8/8/8/R3K2R w KQkq - 0 1",
    "r3k2r/8/8/8/8/8/8/R3K2R b KQkq - 0 1",
    "r3k2r/8/8/8/8/8/8/RN2K1NR w KQkq - 0 1",
    "r3k2r/8/8/8/8/5r2/8/R3K2R w KQkq - 0 1",
    "r3k2r/8/8/8/8/6r1/8/R3K2R w KQkq - 0 1",
    "r3k2r/8/8/8/8/3r4/8/R3K2R w KQkq - 0 1",
    "r3k2r/8/8/8/8/2r5/8/R3K2R w KQkq - 0 1",
    "r3k2r/8/8/8/8/1r6/8/R3K2R w KQkq - 0 1",
    "r3k2r/8/8/8/8/r6r/8/R3K2R w KQkq - 0 1",
    "r3k2r/8/8/8/4r3/8/8/R3K2R w KQkq - 0 1",
    "r3k2r/8/8/8/8/8/6p1/R3K2R w KQkq - 0 1",
    "r3k2r/8/8/8/8/8/3p4/R3K2R w KQkq - 0 1",
    "r3k2r/1P4P1/8/8/8/8/8/R3K2R b KQkq - 0 1",
    "r3k2r/8/8/8/8/8/8/R3K2R w Kq - 0 1",
    "4k3/8/8/8/8/8/8/R3K2R w KQ - 0 1",
    "4k2r/8/8/8/8/8/8/4K2R w Kk - 0 1",
    "r3k3/8/8/8/8/8/8/R3K3 b Qq - 0 1",
    // king e1-g1 look-alikes without rights; rook/queen making king-like squares
    "4k3/8/8/8/8/8/8/4K2R w - - 0 1",
    "4k3/8/8/8/8/8/8/R3K3 w - - 0 1",
    "4k3/8/8/8/8/8/8/4Q1K1 w - - 0 1",
    // promotions: push, capture both ways, capturing rook with rights, with check, pinned
    "r3k2r/1P4P1/8/8/8/8/8/4K3 w kq - 0 1",
    "4k3/8/8/8/8/8/1p4p1/R3K2R b KQ - 0 1",
    "1b1b1K2/2P5/8/8/7k/8/8/8 w - - 0 1",
    "n1n5/PPPk4/8/8/8/8/4Kppp/5N1N b - - 0 1",
    "4k3/P7/8/8/8/8/8/4K3 w - - 99 1",
    "3rk3/4P3/8/8/8/8/8/4K3 w - - 0 1",
    "k3r3/3P4/8/8/8/8/8/4K3 w - - 0 1",
    "8/P6k/8/8/8/8/8/K7 w - - 0 1",
    // king captures on a rook home square; rook takes rook home-to-home
    "r3k2r/8/8/8/8/8/8/R3K2R w KQkq - 4 7",
    "1K2k2r/8/8/8/8/8/8/8 b k - 0 1",
    "r3k1K1/8/8/8/8/8/8/8 b q - 0 1",
    "r3k2r/8/8/8/8/8/8/R3K2R w KQkq - 100 60",
    "4k2r/6K1/8/8/8/8/8/8 w k - 0 1",
    "r3k3/1K6/8/8/8/8/8/8 w q - 0 1",
    // mates and stalemates
    "rnb1kbnr/pppp1ppp/8/4p3/6Pq/5P2/PPPPP2P/RNBQKBNR w KQkq - 1 3",
    "7k/5Q2/6K1/8/8/8/8/8 b - - 0 1",
    "7k/5K2/6Q1/8/8/8/8/8 b - - 0 1",
    "K7/8/2n5/2n2p1p/5P1P/8/8/5k2 w - - 0 1",
    "7K/8/5n2/5n2/8/8/7k/8 w - - 0 1",
    "6rk/5Npp/8/8/8/8/8/6K1 b - - 0 1",
    "k7/2Q5/1K6/8/8/8/8/8 b - - 149 1",
    "k7/1Q6/1K6/8/8/8/8/8 b - - 150 1",
    // insufficient material shapes
    "8/8/4k3/8/8/3K4/8/8 w - - 0 1",
    "8/8/4k3/8/8/3KN3/8/8 w - - 0 1",
    "8/8/4k3/8/8/3KB3/8/8 b - - 0 1",
    "8/8/4k3/4b3/8/3KB3/8/8 b - - 0 1",
    "8/8/4k3/3b4/8/3KB3/8/8 b - - 0 1",
    "2K4k/8/8/8/B1B5/1B1B4/B1B5/1B1B4 w - - 0 1",
    "2K4k/8/8/8/B1B5/1B1B4/B1B5/1BB5 w - - 0 1",
    "8/8/4k3/8/8/3KNN2/8/8 w - - 0 1",
    "8/8/4kn2/8/8/3KN3/8/8 w - - 0 1",
    "8/8/4k3/8/8/3KP3/8/8 w - - 0 1",
    "8/8/4k3/8/8/3KR3/8/8 w - - 0 1",
    "8/8/4kb2/8/8/3KN3/8/8 w - - 0 1",
    // clocks and counters
    "4k3/8/8/8/8/8/4P3/4K1N1 w - - 99 70",
    "4k3/8/8/8/8/8/4P3/4K1N1 w - - 100 70",
    "4k3/8/8/8/8/8/4P3/4K1N1 b - - 149 70",
    "4k3/8/8/8/8/8/4P3/4K1N1 b - - 150 70",
    "4k1n1/4p3/8/8/8/8/4P3/4K1N1 w - - 65535 65535",
    "4k1n1/4p3/8/8/8/8/4P3/4K1N1 b - - 65535 65535",
    "4k1n1/4p3/8/8/8/8/4P3/4K1N1 b - - 65534 65534",
    "4k1n1/4p3/8/8/8/8/4P3/4K1N1 w - - 65534 65535",
    // high mobility
    "R6R/3Q4/1Q4Q1/4Q3/2Q4Q/Q4Q2/pp1Q4/kBNN1KB1 w - - 0 1",
    "3Q4/1Q4Q1/4Q3/2Q4R/Q4Q2/3Q4/1Q4Rp/1K1BBNNk w - - 0 1",
    "QQQQQQBk/Q6B/Q6Q/Q6Q/Q6Q/Q6Q/Q6Q/KQQQQQQQ w - - 0 1",
    // SAN disambiguation corners
    "4k3/6K1/8/N1N5/8/8/8/N1N5 w - - 0 1",
    "3R3B/B7/1B1R4/1N2Q3/RQ1p4/1N6/5B2/3R1K1k w - - 0 1",
    "k5K1/8/5q2/6n1/8/2P5/5q2/8 b - - 0 1",
    "7k/8/8/8/R6R/8/4K3/8 w - - 0 1",
    "4k3/8/8/8/1q5q/8/8/1q2K3 b - - 0 1",
    "5k2/8/5K2/8/3R3R/8/8/b7 w - - 0 1",
    "7n/6P1/8/2PpP2r/2P1P1P1/7q/6P1/3k1K2 w - d6 0 1",
    "8/8/1p6/2P5/1p5k/2P5/7K/8 w - - 0 1",
    // typical middlegames / endgames
    "r1bqk2r/ppp2ppp/2np1n2/1Bb1p3/4P3/2PP1N2/PP3PPP/RNBQK2R w KQkq - 0 6",
    "r1bq1rk1/pp2bppp/2n1pn2/2pp4/3P1B2/2PBPN2/PP1N1PPP/R2QK2R w KQ - 3 8",
    "8/5pk1/6p1/8/3R4/6P1/r4PK1/8 b - - 12 41",
    "2kr3r/pp1n1ppp/2p1bn2/q3p1B1/1b2P3/2NB1N2/PPPQ1PPP/2KR3R w - - 8 11",
    "8/1P1k4/8/8/8/8/5p2/4K3 w - - 0 50",
    "3k4/3p4/8/K1P4r/8/8/8/8 b - - 0 1",
    "8/8/8/8/8/6k1/4Kppp/8 b - - 0 1",
];

thread_local! {
    static FIXED_CACHE: std::cell::RefCell<Option<Vec<MPos>>> = const { std::cell::RefCell::new(None) };
}

/// The fixed corner positions (parsed once per process).
pub fn fixed_positions() -> Vec<MPos> {
    FIXED_CACHE.with(|c| {
        let mut c = c.borrow_mut();
        if c.is_none() {
            let mut v = Vec::new();
            for f in FIXED_FENS {
                match mfen::from_fen(f) {
                    Ok(p) => v.push(p),
                    Err(e) => panic!("harness: bad fixed FEN {:?}: {}", f, e),
                }
            }
            *c = Some(v);
        }
        c.as_ref().unwrap().clone()
    })
}

/// A few fixed positions only (for the Miri configuration, where parsing all of them is slow).
pub fn fixed_positions_slice(start: usize, count: usize) -> Vec<(usize, MPos)> {
    let n = FIXED_FENS.len();
    (0..count.min(n))
        .map(|k| {
            let i = (start + k * 37) % n;
            (i, mfen::from_fen(FIXED_FENS[i]).expect("harness: bad fixed FEN"))
        })
        .collect()
}

pub const COUNTER_SET: [u16; 17] = [
    0, 1, 2, 49, 50, 98, 99, 100, 101, 148, 149, 150, 151, 1000, 65533, 65534, 65535,
];

pub fn random_counters(rng: &mut Rng, p: &mut MPos) {
    match rng.below(4) {
        0 => {
            p.halfmove = *rng.pick(&COUNTER_SET);
            p.fullmove = *rng.pick(&COUNTER_SET);
        }
        1 => {
            p.halfmove = rng.below(160) as u16;
            p.fullmove = 1 + rng.below(300) as u16;
        }
        2 => {
            p.halfmove = rng.below(65536) as u16;
            p.fullmove = rng.below(65536) as u16;
        }
        _ => {
            p.halfmove = rng.below(12) as u16;
            p.fullmove = 1 + rng.below(80) as u16;
        }
    }
}

fn empty_squares(p: &MPos) -> Vec<Sq> {
    (0..64u8).filter(|&s| p.at(s) == EMPTY).collect()
}

fn put_random(rng: &mut Rng, p: &mut MPos, m: u8, avoid_back_ranks: bool) -> Option<Sq> {
    for _ in 0..20 {
        let s = rng.below(64) as u8;
        if p.at(s) != EMPTY {
            continue;
        }
        if avoid_back_ranks && (rank_of(s) == 0 || rank_of(s) == 7) {
            continue;
        }
        p.sq[s as usize] = m;
        return Some(s);
    }
    None
}

fn put_random_col(rng: &mut Rng, p: &mut MPos, k: u8, avoid_back_ranks: bool) -> Option<Sq> {
    let white = rng.chance(1, 2);
    put_random(rng, p, man(white, k), avoid_back_ranks)
}

fn natural_rights(p: &MPos) -> [bool; 4] {
    let wk = p.at(4) == b'K';
    let bk = p.at(60) == b'k';
    [
        wk && p.at(7) == b'R',
        wk && p.at(0) == b'R',
        bk && p.at(63) == b'r',
        bk && p.at(56) == b'r',
    ]
}

/// Try to give `p` an en-passant mark (for the side to move to use). Returns true if set.
pub fn construct_mark(rng: &mut Rng, p: &mut MPos, add_capturer: bool) -> bool {
    // the marked pawn belongs to the side NOT to move and stands on its double-step rank
    let w = p.white_to_move;
    let (pawn, mark_rank, behind1, behind2) = if w { (b'p', 4u8, 5u8, 6u8) } else { (b'P', 3u8, 2u8, 1u8) };
    let mut files: Vec<u8> = (0..8).collect();
    rng.shuffle(&mut files);
    for f in files {
        let m = sq(f, mark_rank);
        let ok_existing = p.at(m) == pawn;
        let can_create = p.at(m) == EMPTY;
        if !(ok_existing || can_create) {
            continue;
        }
        if p.at(sq(f, behind1)) != EMPTY || p.at(sq(f, behind2)) != EMPTY {
            continue;
        }
        p.sq[m as usize] = pawn;
        p.ep = Some(m);
        if add_capturer {
            let cap = man(w, b'P');
            let mut sides: Vec<i8> = vec![-1, 1];
            rng.shuffle(&mut sides);
            let both = rng.chance(1, 4);
            let mut placed = false;
            for d in sides {
                if let Some(c) = step(m, d, 0) {
                    if p.at(c) == EMPTY {
                        p.sq[c as usize] = cap;
                        placed = true;
                        if !both {
                            break;
                        }
                    } else if p.at(c) == cap {
                        placed = true;
                    }
                }
            }
            let _ = placed;
        }
        return true;
    }
    false
}

/// G2: scattered raw position (not necessarily valid, not reachable from the initial array).
pub fn scattered(rng: &mut Rng) -> MPos {
    let mut p = MPos::empty();
    let profile = rng.below(7);
    // kings
    let wk = if rng.chance(1, 2) { 4 } else { rng.below(64) as u8 };
    p.sq[wk as usize] = b'K';
    let mut bk = if rng.chance(1, 2) { 60 } else { rng.below(64) as u8 };
    while bk == wk {
        bk = rng.below(64) as u8;
    }
    p.sq[bk as usize] = b'k';
    // home rooks
    for (s, m) in [(0u8, b'R'), (7, b'R'), (56, b'r'), (63, b'r')] {
        if rng.chance(1, 2) && p.at(s) == EMPTY {
            p.sq[s as usize] = m;
        }
    }
    for white in [true, false] {
        let have = p.count(white);
        let target = match profile {
            0 => rng.range(1, 2),
            1 => rng.range(1, 4),
            2 => rng.range(4, 9),
            3 => rng.range(12, 16),
            4 => rng.range(6, 16),
            5 => rng.range(6, 16),
            _ => rng.range(1, 16),
        };
        let pool: &[u8] = match profile {
            4 => b"QQQQQQRBNP",
            5 => b"PPPPPPNBRQ",
            3 => b"PPPPNBRQQ",
            _ => b"PPPNBRQNBR",
        };
        for _ in have..target {
            let k = *rng.pick(pool);
            let avoid = k != b'P' || !rng.chance(1, 24);
            let avoid_back = if k == b'P' { avoid } else { false };
            put_random(rng, &mut p, man(white, k), avoid_back);
        }
    }
    p.white_to_move = rng.chance(1, 2);
    p.castle = if rng.chance(2, 3) {
        let nat = natural_rights(&p);
        let mut c = nat;
        for x in c.iter_mut() {
            if rng.chance(1, 4) {
                *x = false;
            }
        }
        c
    } else {
        let bits = rng.below(16);
        [bits & 1 != 0, bits & 2 != 0, bits & 4 != 0, bits & 8 != 0]
    };
    if rng.chance(1, 3) {
        let addc = rng.chance(2, 3);
        construct_mark(rng, &mut p, addc);
    } else if rng.chance(1, 30) {
        p.ep = Some(rng.below(64) as u8);
    }
    random_counters(rng, &mut p);
    p
}

/// Add up to `n` random bystanders without touching occupied squares.
pub fn decorate(rng: &mut Rng, p: &mut MPos, n: usize) {
    for _ in 0..n {
        let white = rng.chance(1, 2);
        if p.count(white) >= 16 {
            continue;
        }
        let k = *rng.pick(b"PPNBRQNB");
        put_random(rng, p, man(white, k), k == b'P');
    }
}

fn place_kings(rng: &mut Rng, p: &mut MPos) {
    if p.king_sq(true).is_none() {
        put_random(rng, p, b'K', false);
    }
    if p.king_sq(false).is_none() {
        put_random(rng, p, b'k', false);
    }
}

fn line_squares(from: Sq, df: i8, dr: i8) -> Vec<Sq> {
    let mut v = Vec::new();
    let mut c = from;
    while let Some(n) = step(c, df, dr) {
        v.push(n);
        c = n;
    }
    v
}

/// G3: en-passant family. Kings and enemy sliders are biased onto the capture rank and onto
/// the lines through the captured pawn and the capturer.
pub fn fam_enpassant(rng: &mut Rng) -> MPos {
    let mut p = MPos::empty();
    p.white_to_move = rng.chance(1, 2);
    let w = p.white_to_move;
    let (pawn, cap, mark_rank) = if w { (b'p', b'P', 4u8) } else { (b'P', b'p', 3u8) };
    let f = rng.below(8) as u8;
    let m = sq(f, mark_rank);
    p.sq[m as usize] = pawn;
    p.ep = Some(m);
    let mut caps = Vec::new();
    for d in [-1i8, 1] {
        if let Some(c) = step(m, d, 0) {
            caps.push(c);
        }
    }
    rng.shuffle(&mut caps);
    let ncap = if rng.chance(1, 4) { caps.len() } else { 1 };
    for &c in caps.iter().take(ncap) {
        p.sq[c as usize] = cap;
    }
    let capturer = caps[0];
    // own king: on the rank, on a line through the captured pawn, through the capturer, or anywhere
    let own_k = man(w, b'K');
    let anchor = match rng.below(4) {
        0 => Some((m, true)),
        1 => Some((capturer, false)),
        2 => Some((m, false)),
        _ => None,
    };
    let mut king_dir: Option<(Sq, i8, i8)> = None;
    if let Some((a, rank_only)) = anchor {
        let dirs: Vec<(i8, i8)> = if rank_only {
            vec![(1, 0), (-1, 0)]
        } else {
            KING_D.to_vec()
        };
        let (df, dr) = *rng.pick(&dirs);
        let line: Vec<Sq> = line_squares(a, df, dr).into_iter().filter(|&s| p.at(s) == EMPTY).collect();
        if !line.is_empty() {
            let ks = *rng.pick(&line);
            p.sq[ks as usize] = own_k;
            king_dir = Some((a, -df, -dr));
        }
    }
    if p.king_sq(w).is_none() {
        put_random(rng, &mut p, own_k, false);
    }
    // enemy slider on the opposite ray from the anchor (beyond the pawns)
    if let Some((a, df, dr)) = king_dir {
        if rng.chance(3, 4) {
            let line: Vec<Sq> = line_squares(a, df, dr).into_iter().filter(|&s| p.at(s) == EMPTY).collect();
            if !line.is_empty() {
                let s = *rng.pick(&line);
                let diag = df != 0 && dr != 0;
                let k = if rng.chance(1, 3) { b'Q' } else if diag { b'B' } else { b'R' };
                p.sq[s as usize] = man(!w, k);
            }
        }
    }
    if p.king_sq(!w).is_none() {
        put_random(rng, &mut p, man(!w, b'K'), false);
    }
    if rng.chance(1, 2) {
        let n = rng.below(6);
        decorate(rng, &mut p, n);
    }
    random_counters(rng, &mut p);
    p
}

/// G3: absolute pins — own king, an own man on a ray, an enemy slider further along.
pub fn fam_pin(rng: &mut Rng) -> MPos {
    let mut p = MPos::empty();
    p.white_to_move = rng.chance(1, 2);
    let w = p.white_to_move;
    let ks = rng.below(64) as u8;
    p.sq[ks as usize] = man(w, b'K');
    let npins = rng.range(1, 3);
    for _ in 0..npins {
        let (df, dr) = *rng.pick(&KING_D);
        let line = line_squares(ks, df, dr);
        if line.len() < 2 {
            continue;
        }
        let i = rng.below(line.len() - 1);
        let j = rng.range(i + 1, line.len() - 1);
        if p.at(line[i]) != EMPTY || p.at(line[j]) != EMPTY {
            continue;
        }
        let diag = df != 0 && dr != 0;
        let pinned_kind = *rng.pick(b"PNBRQPPR");
        if pinned_kind == b'P' && (rank_of(line[i]) == 0 || rank_of(line[i]) == 7) {
            continue;
        }
        p.sq[line[i] as usize] = man(w, pinned_kind);
        let sl = if rng.chance(1, 3) { b'Q' } else if diag { b'B' } else { b'R' };
        p.sq[line[j] as usize] = man(!w, sl);
    }
    place_kings(rng, &mut p);
    let n = rng.below(8);
    decorate(rng, &mut p, n);
    if rng.chance(1, 5) {
        construct_mark(rng, &mut p, true);
    }
    random_counters(rng, &mut p);
    p
}

/// G3: side to move is in check by one or two enemy men; random defenders around.
pub fn fam_check(rng: &mut Rng) -> MPos {
    let mut p = MPos::empty();
    p.white_to_move = rng.chance(1, 2);
    let w = p.white_to_move;
    let ks = rng.below(64) as u8;
    p.sq[ks as usize] = man(w, b'K');
    // one checker mostly, two often, three to five now and then (valid boards may have any number)
    let n = match rng.below(16) {
        0..=3 => 2,
        4 => 3,
        5 => 4 + rng.below(2),
        _ => 1,
    };
    for _ in 0..n {
        match rng.below(3) {
            0 => {
                let (df, dr) = *rng.pick(&KNIGHT_D);
                if let Some(s) = step(ks, df, dr) {
                    if p.at(s) == EMPTY {
                        p.sq[s as usize] = man(!w, b'N');
                    }
                }
            }
            1 => {
                let dr: i8 = if w { 1 } else { -1 };
                let df: i8 = if rng.chance(1, 2) { 1 } else { -1 };
                if let Some(s) = step(ks, df, dr) {
                    if p.at(s) == EMPTY && rank_of(s) != 0 && rank_of(s) != 7 {
                        p.sq[s as usize] = man(!w, b'P');
                    }
                }
            }
            _ => {
                let (df, dr) = *rng.pick(&KING_D);
                let line = line_squares(ks, df, dr);
                if !line.is_empty() {
                    let s = *rng.pick(&line);
                    if p.at(s) == EMPTY {
                        let diag = df != 0 && dr != 0;
                        let sl = if rng.chance(1, 3) { b'Q' } else if diag { b'B' } else { b'R' };
                        p.sq[s as usize] = man(!w, sl);
                    }
                }
            }
        }
    }
    place_kings(rng, &mut p);
    let n = rng.below(10);
    decorate(rng, &mut p, n);
    if rng.chance(1, 6) {
        construct_mark(rng, &mut p, true);
    }
    random_counters(rng, &mut p);
    p
}

/// G3: castling — kings and rooks at home with rights, random attackers and blockers.
pub fn fam_castle(rng: &mut Rng) -> MPos {
    let mut p = MPos::empty();
    p.white_to_move = rng.chance(1, 2);
    p.sq[4] = b'K';
    p.sq[60] = b'k';
    for (s, m) in [(0u8, b'R'), (7, b'R'), (56, b'r'), (63, b'r')] {
        if rng.chance(5, 6) {
            p.sq[s as usize] = m;
        }
    }
    if rng.chance(1, 10) {
        // king off home (rights must be normalised away)
        p.sq[4] = EMPTY;
        p.sq[if rng.chance(1, 2) { 3 } else { 12 }] = b'K';
    }
    let bits = if rng.chance(3, 4) { 15 } else { rng.below(16) };
    p.castle = [bits & 1 != 0, bits & 2 != 0, bits & 4 != 0, bits & 8 != 0];
    // blockers on the back ranks
    for r in [0u8, 7] {
        for f in [1u8, 2, 3, 5, 6] {
            if rng.chance(1, 7) {
                let white = rng.chance(1, 2);
                let k = *rng.pick(b"NBQR");
                let s = sq(f, r);
                if p.at(s) == EMPTY {
                    p.sq[s as usize] = man(white, k);
                }
            }
        }
    }
    // attackers aiming at back-rank squares
    let n = rng.below(4);
    for _ in 0..n {
        let white = rng.chance(1, 2);
        let target_rank = if white { 7 } else { 0 };
        let tf = rng.below(8) as u8;
        let t = sq(tf, target_rank);
        match rng.below(3) {
            0 => {
                let (df, dr) = *rng.pick(&KNIGHT_D);
                if let Some(s) = step(t, df, dr) {
                    if p.at(s) == EMPTY {
                        p.sq[s as usize] = man(white, b'N');
                    }
                }
            }
            1 => {
                let dr: i8 = if white { -1 } else { 1 };
                if let Some(s) = step(t, if rng.chance(1, 2) { 1 } else { -1 }, dr) {
                    if p.at(s) == EMPTY {
                        p.sq[s as usize] = man(white, b'P');
                    }
                }
            }
            _ => {
                let dirs: [(i8, i8); 3] = if white { [(0, -1), (1, -1), (-1, -1)] } else { [(0, 1), (1, 1), (-1, 1)] };
                let (df, dr) = *rng.pick(&dirs);
                let line = line_squares(t, df, dr);
                if !line.is_empty() {
                    let s = *rng.pick(&line);
                    if p.at(s) == EMPTY {
                        let sl = if df == 0 { *rng.pick(b"RQ") } else { *rng.pick(b"BQ") };
                        p.sq[s as usize] = man(white, sl);
                    }
                }
            }
        }
    }
    let n = rng.below(6);
    decorate(rng, &mut p, n);
    random_counters(rng, &mut p);
    p
}

/// G3: promotions — pawns on the seventh with assorted targets on the eighth.
pub fn fam_promo(rng: &mut Rng) -> MPos {
    let mut p = MPos::empty();
    p.white_to_move = rng.chance(1, 2);
    let w = p.white_to_move;
    let (from_rank, to_rank) = if w { (6u8, 7u8) } else { (1u8, 0u8) };
    // enemy home rooks with rights, enemy king maybe at home
    let (ek, era, erh) = if w { (60u8, 56u8, 63u8) } else { (4u8, 0u8, 7u8) };
    if rng.chance(2, 3) {
        p.sq[ek as usize] = man(!w, b'K');
        if rng.chance(2, 3) {
            p.sq[era as usize] = man(!w, b'R');
        }
        if rng.chance(2, 3) {
            p.sq[erh as usize] = man(!w, b'R');
        }
    }
    let np = rng.range(1, 4);
    for _ in 0..np {
        let f = rng.below(8) as u8;
        let s = sq(f, from_rank);
        if p.at(s) != EMPTY {
            continue;
        }
        p.sq[s as usize] = man(w, b'P');
        for df in [-1i8, 0, 1] {
            if let Some(t) = step(sq(f, to_rank), df, 0) {
                if p.at(t) == EMPTY && rng.chance(1, 3) {
                    p.sq[t as usize] = man(!w, *rng.pick(b"NBRQ"));
                }
            }
        }
    }
    place_kings(rng, &mut p);
    p.castle = natural_rights(&p);
    if rng.chance(1, 4) {
        let bits = rng.below(16);
        p.castle = [bits & 1 != 0, bits & 2 != 0, bits & 4 != 0, bits & 8 != 0];
    }
    let n = rng.below(6);
    decorate(rng, &mut p, n);
    random_counters(rng, &mut p);
    p
}

/// G3: few-men material configurations for the insufficient-material rule.
pub fn fam_material(rng: &mut Rng) -> MPos {
    let mut p = MPos::empty();
    p.white_to_move = rng.chance(1, 2);
    put_random(rng, &mut p, b'K', false);
    put_random(rng, &mut p, b'k', false);
    match rng.below(6) {
        0 => {}
        1 => {
            let k = *rng.pick(b"NBRQP");
            put_random_col(rng, &mut p, k, k == b'P');
        }
        2 => {
            // bishops, all on one colour
            let light = rng.chance(1, 2);
            let n = rng.range(1, 10);
            for _ in 0..n {
                let white = rng.chance(1, 2);
                if p.count(white) >= 16 {
                    continue;
                }
                for _ in 0..30 {
                    let s = rng.below(64) as u8;
                    if p.at(s) == EMPTY && is_light(s) == light {
                        p.sq[s as usize] = man(white, b'B');
                        break;
                    }
                }
            }
            if rng.chance(1, 3) {
                // one off-colour bishop or one other man
                if rng.chance(1, 2) {
                    for _ in 0..30 {
                        let s = rng.below(64) as u8;
                        if p.at(s) == EMPTY && is_light(s) != light {
                            p.sq[s as usize] = man(rng.chance(1, 2), b'B');
                            break;
                        }
                    }
                } else {
                    let k = *rng.pick(b"NRQP");
                    put_random_col(rng, &mut p, k, k == b'P');
                }
            }
        }
        3 => {
            let n = rng.range(2, 3);
            for _ in 0..n {
                let k = *rng.pick(b"NNBBRQP");
                put_random_col(rng, &mut p, k, k == b'P');
            }
        }
        4 => {
            let n = rng.range(2, 4);
            for _ in 0..n {
                put_random_col(rng, &mut p, b'N', false);
            }
        }
        _ => {
            put_random_col(rng, &mut p, b'N', false);
            put_random_col(rng, &mut p, b'B', false);
        }
    }
    if rng.chance(1, 2) {
        p.halfmove = *rng.pick(&[0u16, 99, 100, 101, 149, 150, 151, 65535]);
        p.fullmove = 1 + rng.below(200) as u16;
    } else {
        random_counters(rng, &mut p);
    }
    p
}

/// G3: dense, queen-heavy positions for mobility and buffer bounds.
pub fn fam_mobility(rng: &mut Rng) -> MPos {
    let mut p = MPos::empty();
    p.white_to_move = rng.chance(1, 2);
    let w = p.white_to_move;
    // tuck the enemy king in a corner behind its own pawns so that it is rarely in check
    let corner = *rng.pick(&[0u8, 7, 56, 63]);
    p.sq[corner as usize] = man(!w, b'K');
    for (df, dr) in KING_D {
        if let Some(s) = step(corner, df, dr) {
            if rng.chance(3, 4) {
                let k = if rank_of(s) == 0 || rank_of(s) == 7 { *rng.pick(b"NB") } else { *rng.pick(b"PNB") };
                p.sq[s as usize] = man(!w, k);
            }
        }
    }
    put_random(rng, &mut p, man(w, b'K'), false);
    let nq = rng.range(6, 15);
    for _ in 0..nq {
        if p.count(w) >= 16 {
            break;
        }
        let k = *rng.pick(b"QQQQQRRBN");
        put_random(rng, &mut p, man(w, k), false);
    }
    p.halfmove = 0;
    p.fullmove = 1;
    p
}

/// Pick a move for a random game, biased towards the special and forcing moves.
pub fn pick_game_move(rng: &mut Rng, p: &MPos, legal: &[MMove]) -> MMove {
    let mut weights: Vec<usize> = Vec::with_capacity(legal.len());
    for m in legal {
        let mut wgt = 2;
        if p.is_capture(m) {
            wgt += 4;
        }
        match m.kind {
            MKind::CastleK | MKind::CastleQ => wgt += 16,
            MKind::EnPassant => wgt += 30,
            MKind::Double => wgt += 4,
            MKind::PromoN | MKind::PromoB | MKind::PromoR | MKind::PromoQ => wgt += 6,
            MKind::Simple => {}
        }
        weights.push(wgt);
    }
    let total: usize = weights.iter().sum();
    let mut x = rng.below(total);
    for (i, wgt) in weights.iter().enumerate() {
        if x < *wgt {
            return legal[i];
        }
        x -= wgt;
    }
    legal[legal.len() - 1]
}

/// G1: random game walk; calls `visit` on every position reached (including the start).
/// After a double step the reply is biased towards an adjacent-pawn push so that en-passant
/// opportunities actually get used.
pub fn game_walk(rng: &mut Rng, start: &MPos, max_plies: usize, visit: &mut dyn FnMut(&MPos, Option<&MMove>)) {
    let mut p = start.clone();
    visit(&p, None);
    for _ in 0..max_plies {
        let legal = p.legal_moves();
        if legal.is_empty() {
            break;
        }
        let m = pick_game_move(rng, &p, &legal);
        p = p.apply(&m);
        visit(&p, Some(&m));
        if p.insufficient_material() && rng.chance(1, 3) {
            break;
        }
    }
}

/// G4: iterator over the three-man space index (not validated).
/// index -> (white king, black king, man, square, side)
pub const THREE_MAN_TOTAL: u64 = 64 * 64 * 10 * 64 * 2;

pub fn three_man(idx: u64) -> Option<MPos> {
    let mut i = idx;
    let side = i % 2;
    i /= 2;
    let ps = (i % 64) as u8;
    i /= 64;
    let mk = (i % 10) as usize;
    i /= 10;
    let bk = (i % 64) as u8;
    i /= 64;
    let wk = (i % 64) as u8;
    if wk == bk || ps == wk || ps == bk {
        return None;
    }
    let m = b"QRBNPqrbnp"[mk];
    if kind(m) == b'P' && (rank_of(ps) == 0 || rank_of(ps) == 7) {
        return None;
    }
    let mut p = MPos::empty();
    p.sq[wk as usize] = b'K';
    p.sq[bk as usize] = b'k';
    p.sq[ps as usize] = m;
    p.white_to_move = side == 0;
    Some(p)
}

/// G3: SAN disambiguation crowd — several like pieces of the side to move aim at one square,
/// some of them pinned against their own king.
pub fn fam_san_crowd(rng: &mut Rng) -> MPos {
    let mut p = MPos::empty();
    p.white_to_move = rng.chance(1, 2);
    let w = p.white_to_move;
    let t = rng.below(64) as u8;
    let k = *rng.pick(b"NNRRQQB");
    if rng.chance(1, 2) {
        p.sq[t as usize] = man(!w, *rng.pick(b"PNBRQ"));
        if kind(p.at(t)) == b'P' && (rank_of(t) == 0 || rank_of(t) == 7) {
            p.sq[t as usize] = man(!w, b'N');
        }
    }
    // candidate origin squares on an otherwise empty board
    let mut origins: Vec<Sq> = Vec::new();
    match k {
        b'N' => {
            for (df, dr) in KNIGHT_D {
                if let Some(s) = step(t, df, dr) {
                    origins.push(s);
                }
            }
        }
        _ => {
            let dirs: Vec<(i8, i8)> = match k {
                b'R' => ROOK_D.to_vec(),
                b'B' => BISHOP_D.to_vec(),
                _ => KING_D.to_vec(),
            };
            for (df, dr) in dirs {
                let line = line_squares(t, df, dr);
                if !line.is_empty() {
                    // one origin per ray (the nearest piece blocks the rest)
                    origins.push(*rng.pick(&line));
                }
            }
        }
    }
    rng.shuffle(&mut origins);
    let n = rng.range(2, 5).min(origins.len());
    for &o in origins.iter().take(n) {
        if p.at(o) == EMPTY {
            p.sq[o as usize] = man(w, k);
        }
    }
    // own king, maybe in line with one of the crowd and an enemy slider behind it (a pin)
    let crowd: Vec<Sq> = (0..64u8).filter(|&s| p.at(s) == man(w, k)).collect();
    if !crowd.is_empty() && rng.chance(2, 3) {
        let c = *rng.pick(&crowd);
        let (df, dr) = *rng.pick(&KING_D);
        let kline: Vec<Sq> = line_squares(c, df, dr).into_iter().filter(|&s| p.at(s) == EMPTY).collect();
        let sline: Vec<Sq> = line_squares(c, -df, -dr).into_iter().filter(|&s| p.at(s) == EMPTY).collect();
        if !kline.is_empty() && !sline.is_empty() {
            p.sq[*rng.pick(&kline) as usize] = man(w, b'K');
            let diag = df != 0 && dr != 0;
            let sl = if rng.chance(1, 3) { b'Q' } else if diag { b'B' } else { b'R' };
            p.sq[*rng.pick(&sline) as usize] = man(!w, sl);
        }
    }
    place_kings(rng, &mut p);
    let extra = rng.below(5);
    decorate(rng, &mut p, extra);
    random_counters(rng, &mut p);
    p
}

/// G3: stalemate shapes whose only pseudo-legal move is an en passant that uncovers the king on
/// the rank; decorated with bystanders of the side not to move, all four orientations.
pub fn fam_ep_stalemate(rng: &mut Rng) -> MPos {
    let base = *rng.pick(&["2b4k/p7/1n6/KPp4r/8/8/8/8 w - c6 0 1", "2b4k/p7/1n6/KPp4q/8/8/8/8 w - c6 0 1", "2b4k/p7/1n6/KPp3r1/8/8/8/8 w - c6 0 1", "2b5/p7/1n6/KPp1r3/8/8/8/7k w - c6 0 1"]);
    let mut p = mfen::from_fen(base).expect("harness: bad stalemate base");
    let extra = rng.below(4);
    for _ in 0..extra {
        let k = *rng.pick(b"PNBN");
        // only on the far side of the board so that the rank-5 geometry stays intact
        for _ in 0..10 {
            let s = sq(4 + rng.below(4) as u8, rng.below(3) as u8 + 1);
            if p.at(s) == EMPTY {
                p.sq[s as usize] = man(false, k);
                break;
            }
        }
    }
    // mirror first, then break the castling-free symmetry requirement trivially (no rights here)
    if rng.chance(1, 2) {
        p = p.mirror_h();
    }
    if rng.chance(1, 2) {
        p = p.mirror_v();
    }
    p.halfmove = *rng.pick(&[0u16, 3, 99, 100, 149, 150]);
    p
}

/// G3: raw positions whose en-passant mark must be dropped by validation: on a pawn of the side
/// to move, on an empty square, on a piece, or on an enemy pawn with the square behind occupied —
/// always on the rank appropriate to the side to move, with a would-be capturer beside it.
pub fn fam_odd_marks(rng: &mut Rng) -> MPos {
    let mut p = match rng.below(3) {
        0 => fam_enpassant(rng),
        1 => fam_pin(rng),
        _ => scattered(rng),
    };
    let w = p.white_to_move;
    let (mark_rank, behind_rank) = if w { (4u8, 5u8) } else { (3u8, 2u8) };
    let f = rng.below(8) as u8;
    let m = sq(f, mark_rank);
    let behind = sq(f, behind_rank);
    match rng.below(4) {
        0 => {
            // own pawn, empty square behind
            if kind(p.at(m)) != b'K' && kind(p.at(behind)) != b'K' {
                p.sq[m as usize] = man(w, b'P');
                p.sq[behind as usize] = EMPTY;
            }
        }
        1 => {
            if kind(p.at(m)) != b'K' {
                p.sq[m as usize] = EMPTY;
            }
        }
        2 => {
            if kind(p.at(m)) != b'K' {
                p.sq[m as usize] = man(rng.chance(1, 2), *rng.pick(b"NBRQ"));
            }
        }
        _ => {
            // enemy pawn but the square behind is occupied
            if kind(p.at(m)) != b'K' && kind(p.at(behind)) != b'K' {
                p.sq[m as usize] = man(!w, b'P');
                p.sq[behind as usize] = man(rng.chance(1, 2), *rng.pick(b"NBRQP"));
            }
        }
    }
    p.ep = Some(m);
    // a would-be capturer beside the mark
    for d in [-1i8, 1] {
        if let Some(c) = step(m, d, 0) {
            if p.at(c) == EMPTY && rng.chance(2, 3) {
                p.sq[c as usize] = man(w, b'P');
            }
        }
    }
    p
}

/// G3: "checkerboard" positions — 32 men on alternating squares of every rank, which gives the
/// longest possible FEN placement field (71 characters) and dense, mutually blocking armies.
pub fn fam_checkerboard(rng: &mut Rng) -> MPos {
    let mut p = MPos::empty();
    for r in 0..8u8 {
        let parity = rng.below(2) as u8;
        let white = r < 4;
        for f in 0..8u8 {
            if f % 2 == parity {
                let pool: &[u8] = if r == 0 || r == 7 { b"NBRQNB" } else { b"PPPNBRQ" };
                p.sq[sq(f, r) as usize] = man(white, *rng.pick(pool));
            }
        }
    }
    // kings replace one man on each back rank
    for (r, k) in [(0u8, b'K'), (7u8, b'k')] {
        let spots: Vec<Sq> = (0..8u8).map(|f| sq(f, r)).filter(|&s| p.at(s) != EMPTY).collect();
        let s = *rng.pick(&spots);
        p.sq[s as usize] = k;
    }
    p.white_to_move = rng.chance(1, 2);
    random_counters(rng, &mut p);
    p
}
