//! Boundary conversions between the model and owlchess values, plus a "full" board snapshot.

use crate::model::*;
use owlchess::moves::{Move, MoveKind};
use owlchess::verif_hooks;
use owlchess::{Board, CastlingRights, CastlingSide, Cell, Color, Coord, File, Piece, RawBoard, Rank};

pub fn coord(s: Sq) -> Coord {
    Coord::from_parts(
        File::from_index(file_of(s) as usize),
        Rank::from_index(7 - rank_of(s) as usize),
    )
}

pub fn msq(c: Coord) -> Sq {
    sq(c.file().index() as u8, 7 - c.rank().index() as u8)
}

pub fn cell(p: u8) -> Cell {
    if p == EMPTY {
        return Cell::EMPTY;
    }
    let color = if is_white(p) { Color::White } else { Color::Black };
    let piece = match kind(p) {
        b'P' => Piece::Pawn,
        b'K' => Piece::King,
        b'N' => Piece::Knight,
        b'B' => Piece::Bishop,
        b'R' => Piece::Rook,
        b'Q' => Piece::Queen,
        _ => panic!("harness: bad man letter {}", p),
    };
    Cell::from_parts(color, piece)
}

pub fn mman(c: Cell) -> u8 {
    match (c.color(), c.piece()) {
        (None, _) | (_, None) => EMPTY,
        (Some(col), Some(pc)) => {
            let k = match pc {
                Piece::Pawn => b'P',
                Piece::King => b'K',
                Piece::Knight => b'N',
                Piece::Bishop => b'B',
                Piece::Rook => b'R',
                Piece::Queen => b'Q',
            };
            man(col == Color::White, k)
        }
    }
}

pub fn color(white: bool) -> Color {
    if white {
        Color::White
    } else {
        Color::Black
    }
}

pub fn to_raw(p: &MPos) -> RawBoard {
    let mut r = RawBoard::empty();
    for s in 0..64u8 {
        r.put(coord(s), cell(p.at(s)));
    }
    r.side = color(p.white_to_move);
    let mut c = CastlingRights::EMPTY;
    if p.castle[0] {
        c.set(Color::White, CastlingSide::King);
    }
    if p.castle[1] {
        c.set(Color::White, CastlingSide::Queen);
    }
    if p.castle[2] {
        c.set(Color::Black, CastlingSide::King);
    }
    if p.castle[3] {
        c.set(Color::Black, CastlingSide::Queen);
    }
    r.castling = c;
    r.ep_source = p.ep.map(coord);
    r.move_counter = p.halfmove;
    r.move_number = p.fullmove;
    r
}

pub fn from_raw(r: &RawBoard) -> MPos {
    let mut p = MPos::empty();
    for s in 0..64u8 {
        p.sq[s as usize] = mman(r.get(coord(s)));
    }
    p.white_to_move = r.side == Color::White;
    p.castle = [
        r.castling.has(Color::White, CastlingSide::King),
        r.castling.has(Color::White, CastlingSide::Queen),
        r.castling.has(Color::Black, CastlingSide::King),
        r.castling.has(Color::Black, CastlingSide::Queen),
    ];
    p.ep = r.ep_source.map(msq);
    p.halfmove = r.move_counter;
    p.fullmove = r.move_number;
    p
}

pub fn to_board(p: &MPos) -> Result<Board, owlchess::board::ValidateError> {
    Board::try_from(to_raw(p))
}

pub fn move_kind(k: MKind) -> MoveKind {
    match k {
        MKind::Simple => MoveKind::Simple,
        MKind::CastleK => MoveKind::CastlingKingside,
        MKind::CastleQ => MoveKind::CastlingQueenside,
        MKind::Double => MoveKind::PawnDouble,
        MKind::EnPassant => MoveKind::Enpassant,
        MKind::PromoN => MoveKind::PromoteKnight,
        MKind::PromoB => MoveKind::PromoteBishop,
        MKind::PromoR => MoveKind::PromoteRook,
        MKind::PromoQ => MoveKind::PromoteQueen,
    }
}

pub fn mkind(k: MoveKind) -> Option<MKind> {
    Some(match k {
        MoveKind::Null => return None,
        MoveKind::Simple => MKind::Simple,
        MoveKind::CastlingKingside => MKind::CastleK,
        MoveKind::CastlingQueenside => MKind::CastleQ,
        MoveKind::PawnDouble => MKind::Double,
        MoveKind::Enpassant => MKind::EnPassant,
        MoveKind::PromoteKnight => MKind::PromoN,
        MoveKind::PromoteBishop => MKind::PromoB,
        MoveKind::PromoteRook => MKind::PromoR,
        MoveKind::PromoteQueen => MKind::PromoQ,
    })
}

/// Checked construction: `None` when owlchess says the tuple is not well-formed.
pub fn to_move(m: &MMove) -> Option<Move> {
    Move::new(move_kind(m.kind), cell(m.man), coord(m.from), coord(m.to)).ok()
}

pub fn from_move(m: &Move) -> Option<MMove> {
    Some(MMove {
        kind: mkind(m.kind())?,
        man: mman(m.src_cell()),
        from: msq(m.src()),
        to: msq(m.dst()),
    })
}

pub fn move_desc(m: &Move) -> String {
    format!(
        "{:?}/{}/{}{}",
        m.kind(),
        m.src_cell().as_char(),
        m.src(),
        m.dst()
    )
}

/// Everything observable about a `Board`: raw fields, hash, and all 16 occupancy sets.
#[derive(Clone, PartialEq, Eq, Debug)]
pub struct Full {
    pub raw: RawBoard,
    pub hash: u64,
    pub white: u64,
    pub black: u64,
    pub all: u64,
    pub pieces: [u64; 13],
}

pub fn full(b: &Board) -> Full {
    let mut pieces = [0u64; 13];
    for (i, c) in Cell::iter().enumerate() {
        pieces[i] = b.piece(c).as_raw();
    }
    Full {
        raw: *b.raw(),
        hash: b.zobrist_hash(),
        white: b.color(Color::White).as_raw(),
        black: b.color(Color::Black).as_raw(),
        all: verif_hooks::board_all(b).as_raw(),
        pieces,
    }
}

/// Derived state recomputed from the raw squares alone.
pub fn full_from_scratch(raw: &RawBoard) -> Full {
    let mut pieces = [0u64; 13];
    let mut white = 0u64;
    let mut black = 0u64;
    for i in 0..64usize {
        let c = raw.cells[i];
        if c.is_occupied() {
            pieces[c.index()] |= 1u64 << i;
            match c.color() {
                Some(Color::White) => white |= 1u64 << i,
                Some(Color::Black) => black |= 1u64 << i,
                None => {}
            }
        }
    }
    Full {
        raw: *raw,
        hash: raw.zobrist_hash(),
        white,
        black,
        all: white | black,
        pieces,
    }
}

pub fn full_diff(a: &Full, b: &Full) -> String {
    let mut d = Vec::new();
    if a.raw != b.raw {
        d.push(format!("raw {} vs {}", a.raw.as_fen(), b.raw.as_fen()));
    }
    if a.hash != b.hash {
        d.push(format!("hash {:#x} vs {:#x}", a.hash, b.hash));
    }
    if a.white != b.white {
        d.push(format!("white {:#x} vs {:#x}", a.white, b.white));
    }
    if a.black != b.black {
        d.push(format!("black {:#x} vs {:#x}", a.black, b.black));
    }
    if a.all != b.all {
        d.push(format!("all {:#x} vs {:#x}", a.all, b.all));
    }
    for i in 0..13 {
        if a.pieces[i] != b.pieces[i] {
            d.push(format!("pieces[{}] {:#x} vs {:#x}", i, a.pieces[i], b.pieces[i]));
        }
    }
    d.join("; ")
}
