//! Monitor context: counters, feature histogram, distinct-case fingerprints, samples,
//! violations, panic capture, current-case tracing and the per-shard result file.

use crate::rng::{fingerprint, Rng};
use std::cell::RefCell;
use std::collections::{BTreeMap, HashSet};
use std::fs::File;
use std::io::{Seek, SeekFrom, Write};
use std::panic::{self, AssertUnwindSafe};

#[derive(Clone, Copy, Debug, PartialEq, Eq)]
pub enum Tier {
    Quick,
    Thorough,
}

#[derive(Clone, Debug)]
pub struct Violation {
    pub clause: String,
    pub case: String,
    pub detail: String,
}

pub enum Trace {
    None,
    Stderr,
    File(File),
}

pub struct Ctx {
    pub prop: String,
    pub config: String,
    pub tier: Tier,
    pub seed: u64,
    pub shard: usize,
    pub nshards: usize,
    /// Work multiplier (1.0 = the tier's nominal budget; Miri uses a small fraction)
    pub scale: f64,
    pub rng: Rng,
    pub evaluations: u64,
    pub cases: u64,
    distinct: HashSet<u64>,
    distinct_capped: bool,
    pub features: BTreeMap<String, u64>,
    pub samples: Vec<String>,
    pub violations: Vec<Violation>,
    pub violation_count: u64,
    sigs: HashSet<String>,
    pub exhaustive_parts: Vec<String>,
    pub notes: Vec<String>,
    trace: Trace,
    pub is_replay: bool,
    started: std::time::Instant,
}

thread_local! {
    static LAST_PANIC: RefCell<Option<String>> = const { RefCell::new(None) };
}

pub fn install_panic_hook() {
    panic::set_hook(Box::new(|info| {
        let loc = info
            .location()
            .map(|l| format!("{}:{}", l.file(), l.line()))
            .unwrap_or_else(|| "?".into());
        let msg = if let Some(s) = info.payload().downcast_ref::<&str>() {
            s.to_string()
        } else if let Some(s) = info.payload().downcast_ref::<String>() {
            s.clone()
        } else {
            "<non-string panic>".to_string()
        };
        if msg.starts_with("unsafe precondition(s) violated") || msg.contains("cannot unwind") || msg.contains("during cleanup") {
            // the process is about to abort (e.g. a std `unsafe precondition(s) violated` check):
            // leave a report for the parent, which cannot be given through catch_unwind
            eprintln!("NON-UNWINDING-PANIC: {} @ {}", msg, loc);
        }
        LAST_PANIC.with(|p| *p.borrow_mut() = Some(format!("{} @ {}", msg, loc)));
    }));
}

/// Runs `f`, converting a panic into `Err(message @ file:line)`.
pub fn catch<T>(f: impl FnOnce() -> T) -> Result<T, String> {
    match panic::catch_unwind(AssertUnwindSafe(f)) {
        Ok(v) => Ok(v),
        Err(_) => Err(LAST_PANIC
            .with(|p| p.borrow_mut().take())
            .unwrap_or_else(|| "<panic without info>".into())),
    }
}

/// Strips the message, keeps `file:line` relative to the repo, for signatures.
pub fn panic_site(msg: &str) -> String {
    match msg.rfind(" @ ") {
        Some(i) => {
            let loc = &msg[i + 3..];
            // keep the path relative to the repository root, wherever the tree is checked out
            for marker in ["chess_base/src/", "chess/src/", "chess/build.rs"] {
                if let Some(j) = loc.find(marker) {
                    return loc[j..].to_string();
                }
            }
            loc.to_string()
        }
        None => msg.to_string(),
    }
}

const MAX_DISTINCT: usize = 3_000_000;
const MAX_STORED_VIOLATIONS: usize = 40;
const MAX_SAMPLES: usize = 12;

impl Ctx {
    #[allow(clippy::too_many_arguments)]
    pub fn new(
        prop: &str,
        config: &str,
        tier: Tier,
        seed: u64,
        shard: usize,
        nshards: usize,
        scale: f64,
        trace: Trace,
    ) -> Ctx {
        let pnum = prop.trim_start_matches('C').parse::<u64>().unwrap_or(0);
        Ctx {
            prop: prop.to_string(),
            config: config.to_string(),
            tier,
            seed,
            shard,
            nshards,
            scale,
            rng: Rng::new(crate::rng::mix3(seed, pnum, shard as u64)),
            evaluations: 0,
            cases: 0,
            distinct: HashSet::new(),
            distinct_capped: false,
            features: BTreeMap::new(),
            samples: Vec::new(),
            violations: Vec::new(),
            violation_count: 0,
            sigs: HashSet::new(),
            exhaustive_parts: Vec::new(),
            notes: Vec::new(),
            trace,
            is_replay: false,
            started: std::time::Instant::now(),
        }
    }

    /// Budget helper: `quick`/`thorough` nominal counts scaled by the config's scale,
    /// divided over shards (at least `min`).
    pub fn budget(&self, quick: u64, thorough: u64) -> u64 {
        let base = match self.tier {
            Tier::Quick => quick,
            Tier::Thorough => thorough,
        };
        let per = (base as f64 * self.scale / self.nshards as f64).ceil() as u64;
        per.max(1)
    }

    /// Miri safety net: true once this shard has announced as many cases as a Miri shard may run.
    pub fn miri_full(&self) -> bool {
        if self.config != "miri" || self.is_replay {
            return false;
        }
        // the interpreter is ~10^4 times slower: bound the *workload* (never the verdict) by a case
        // count and by elapsed time
        let (cap, secs) = match self.tier {
            Tier::Quick => (24, 22),
            Tier::Thorough => (60, 200),
        };
        self.cases >= cap || self.started.elapsed().as_secs() >= secs
    }

    pub fn light(&self) -> bool {
        self.config == "miri"
    }

    /// Is this deterministic item (by running index) assigned to this shard?
    pub fn mine(&self, idx: u64) -> bool {
        (idx % self.nshards as u64) as usize == self.shard
    }

    pub fn begin_case(&mut self, desc: &str) {
        self.cases += 1;
        match &mut self.trace {
            Trace::None => {}
            Trace::Stderr => eprintln!("CASE {} {}", self.cases, desc),
            Trace::File(f) => {
                let line = format!("{} {}\n", self.cases, desc);
                let _ = f.seek(SeekFrom::Start(0));
                let _ = f.write_all(line.as_bytes());
                let _ = f.set_len(line.len() as u64);
            }
        }
        if self.samples.len() < MAX_SAMPLES && (self.cases <= 3 || self.rng_sample()) {
            self.samples.push(desc.to_string());
        }
    }

    /// An extra, human-readable sample (operation trace, decoded text) for the evidence file.
    pub fn sample_note(&mut self, text: &str) {
        if self.samples.len() < MAX_SAMPLES + 4 {
            self.samples.push(text.to_string());
        }
    }

    fn rng_sample(&mut self) -> bool {
        // sparse, deterministic sampling of later cases (does not disturb the workload rng)
        let c = self.cases;
        c.is_power_of_two() || (c % 9973 == 0)
    }

    pub fn eval(&mut self, n: u64) {
        self.evaluations += n;
    }

    pub fn feature(&mut self, name: &str) {
        *self.features.entry(name.to_string()).or_insert(0) += 1;
    }

    pub fn feature_n(&mut self, name: &str, n: u64) {
        *self.features.entry(name.to_string()).or_insert(0) += n;
    }

    pub fn feature_max(&mut self, name: &str, v: u64) {
        let e = self.features.entry(name.to_string()).or_insert(0);
        if v > *e {
            *e = v;
        }
    }

    /// Registers a non-trivial case by its key bytes.
    pub fn nontrivial(&mut self, key: &[u8]) {
        if self.distinct.len() >= MAX_DISTINCT {
            self.distinct_capped = true;
            return;
        }
        self.distinct.insert(fingerprint(key));
    }

    pub fn violation(&mut self, clause: &str, case: &str, detail: &str) {
        self.violation_count += 1;
        let sig = format!("{}|{}", clause, case);
        if !self.sigs.insert(sig) {
            return;
        }
        if self.violations.len() < MAX_STORED_VIOLATIONS {
            self.violations.push(Violation {
                clause: clause.to_string(),
                case: case.to_string(),
                detail: detail.to_string(),
            });
        }
    }

    /// Runs `f` under catch_unwind; a panic becomes a violation of clause `panic:<clause>`.
    pub fn guard<T>(&mut self, clause: &str, case: &str, f: impl FnOnce() -> T) -> Option<T> {
        match catch(f) {
            Ok(v) => Some(v),
            Err(msg) => {
                let site = panic_site(&msg);
                self.violation(&format!("panic:{}:{}", clause, site), case, &msg);
                None
            }
        }
    }

    pub fn distinct_len(&self) -> usize {
        self.distinct.len()
    }

    pub fn write_result(&self, path: &str, wall_s: f64, status: &str) -> std::io::Result<()> {
        let mut s = String::new();
        s.push_str("{\n");
        s.push_str(&format!(" \"property\": {},\n", jstr(&self.prop)));
        s.push_str(&format!(" \"config\": {},\n", jstr(&self.config)));
        s.push_str(&format!(" \"status\": {},\n", jstr(status)));
        s.push_str(&format!(" \"shard\": {},\n \"nshards\": {},\n", self.shard, self.nshards));
        s.push_str(&format!(" \"seed\": {},\n", self.seed));
        s.push_str(&format!(" \"evaluations\": {},\n \"cases\": {},\n", self.evaluations, self.cases));
        s.push_str(&format!(" \"distinct\": {},\n", self.distinct.len()));
        s.push_str(&format!(" \"distinct_capped\": {},\n", self.distinct_capped));
        s.push_str(&format!(" \"violation_count\": {},\n", self.violation_count));
        s.push_str(&format!(" \"wall_s\": {:.3},\n", wall_s));
        s.push_str(" \"features\": {");
        let mut first = true;
        for (k, v) in &self.features {
            if !first {
                s.push(',');
            }
            first = false;
            s.push_str(&format!("\n  {}: {}", jstr(k), v));
        }
        s.push_str("\n },\n");
        s.push_str(&format!(" \"samples\": {},\n", jlist(&self.samples)));
        s.push_str(&format!(" \"exhaustive_parts\": {},\n", jlist(&self.exhaustive_parts)));
        s.push_str(&format!(" \"notes\": {},\n", jlist(&self.notes)));
        s.push_str(" \"violations\": [");
        for (i, v) in self.violations.iter().enumerate() {
            if i > 0 {
                s.push(',');
            }
            s.push_str(&format!(
                "\n  {{\"clause\": {}, \"case\": {}, \"detail\": {}}}",
                jstr(&v.clause),
                jstr(&v.case),
                jstr(&v.detail)
            ));
        }
        s.push_str("\n ]\n}\n");
        std::fs::write(path, s)?;
        // fingerprints for exact cross-shard distinct counting
        let mut fp: Vec<u64> = self.distinct.iter().copied().collect();
        fp.sort_unstable();
        let mut bytes = Vec::with_capacity(fp.len() * 8);
        for x in fp {
            bytes.extend_from_slice(&x.to_le_bytes());
        }
        std::fs::write(format!("{}.fp", path), bytes)?;
        Ok(())
    }
}

pub fn jstr(s: &str) -> String {
    let mut o = String::with_capacity(s.len() + 2);
    o.push('"');
    for c in s.chars() {
        match c {
            '"' => o.push_str("\\\""),
            '\\' => o.push_str("\\\\"),
            '\n' => o.push_str("\\n"),
            '\r' => o.push_str("\\r"),
            '\t' => o.push_str("\\t"),
            c if (c as u32) < 0x20 => o.push_str(&format!("\\u{:04x}", c as u32)),
            c => o.push(c),
        }
    }
    o.push('"');
    o
}

pub fn jlist(xs: &[String]) -> String {
    let mut o = String::from("[");
    for (i, x) in xs.iter().enumerate() {
        if i > 0 {
            o.push_str(", ");
        }
        o.push_str(&jstr(x));
    }
    o.push(']');
    o
}

/// Hex encoding of arbitrary strings for case descriptions (so any bytes survive JSON and argv).
pub fn hex(s: &[u8]) -> String {
    let mut o = String::with_capacity(s.len() * 2);
    for b in s {
        o.push_str(&format!("{:02x}", b));
    }
    o
}

pub fn unhex(s: &str) -> Option<Vec<u8>> {
    if s.len() % 2 != 0 {
        return None;
    }
    let b = s.as_bytes();
    let mut o = Vec::with_capacity(s.len() / 2);
    for i in (0..b.len()).step_by(2) {
        let h = (b[i] as char).to_digit(16)?;
        let l = (b[i + 1] as char).to_digit(16)?;
        o.push((h * 16 + l) as u8);
    }
    Some(o)
}

/// Printable preview of arbitrary text for details.
pub fn preview(s: &str) -> String {
    let mut o = String::new();
    for (i, c) in s.chars().enumerate() {
        if i >= 60 {
            o.push_str("...");
            break;
        }
        if c.is_ascii_graphic() || c == ' ' {
            o.push(c);
        } else {
            o.push_str(&format!("\\u{{{:x}}}", c as u32));
        }
    }
    o
}
