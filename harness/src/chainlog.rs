//! G7 operation histories on `MoveChain`, recorded as an event log at the client boundary,
//! plus the offline checkers (C13 replay/reversibility/equality, C14 repetition and outcome,
//! C17 walker and printing) that read the log afterwards.
//!
//! The generator keeps its own model of the game only to *choose* operations; the checkers
//! work from the recorded events and the start position alone.

use crate::conv::{from_move, from_raw, full, full_diff, full_from_scratch, to_board, to_move, Full};
use crate::ctx::Ctx;
use crate::mfen;
use crate::model::*;
use crate::msan;
use crate::rng::Rng;
use owlchess::chain::{GameStatusPolicy, MoveChain, NumberPolicy};
use owlchess::moves::{make, Move, Style};
use owlchess::types::OutcomeFilter;
use owlchess::{Board, Color, DrawReason, Outcome, RawBoard, WinReason};

#[derive(Clone, Debug)]
pub enum Denote {
    /// the candidate denotes exactly this legal move (None: it denotes no legal move)
    Exact(Option<MMove>),
    /// free text: unknown to the generator; the checker only demands soundness
    Free,
}

#[derive(Clone, Debug)]
pub enum Ev {
    Push { how: &'static str, what: String, denotes: Denote, ok: bool },
    PushList { text: String, ok: bool, err_pos: Option<usize> },
    Pop { ret: Option<Move> },
    Calc { ret: Option<Outcome> },
    SetAuto { filter: u8, ret: Option<Outcome> },
    Clear,
    Reset(Option<Outcome>),
    SetOutcome(Outcome),
}

#[derive(Clone, Debug)]
pub struct Obs {
    pub len: usize,
    pub moves: Vec<Move>,
    pub last: Full,
    pub outcome: Option<Outcome>,
    pub start: RawBoard,
    pub repeat: Vec<(u64, usize)>,
}

#[derive(Clone, Debug)]
pub struct Event {
    pub ev: Ev,
    pub obs: Obs,
}

pub fn observe(ch: &MoveChain) -> Obs {
    let mut repeat = ch.verif_repeat().verif_entries();
    repeat.sort();
    let moves: Vec<Move> = ch.iter().collect();
    // `get` must agree with `iter`
    for (i, m) in moves.iter().enumerate() {
        assert!(ch.get(i) == *m, "harness-observed: MoveChain::get({}) disagrees with iter()", i);
    }
    assert!(ch.is_empty() == (ch.len() == 0));
    assert!(ch.is_finished() == ch.outcome().is_some());
    Obs { len: ch.len(), moves, last: full(ch.last()), outcome: *ch.outcome(), start: *ch.startpos(), repeat }
}

pub fn filter_of(i: u8) -> OutcomeFilter {
    match i {
        0 => OutcomeFilter::Force,
        1 => OutcomeFilter::Strict,
        _ => OutcomeFilter::Relaxed,
    }
}

fn ev_str(e: &Ev) -> String {
    match e {
        Ev::Push { how, what, ok, .. } => format!("push {}({}) -> {}", how, what, if *ok { "ok" } else { "refused" }),
        Ev::PushList { text, ok, err_pos } => format!("push_uci_list({:?}) -> {} {:?}", text, ok, err_pos),
        Ev::Pop { ret } => format!("pop -> {:?}", ret.map(|m| m.to_string())),
        Ev::Calc { ret } => format!("calc_outcome -> {:?}", ret),
        Ev::SetAuto { filter, ret } => format!("set_auto_outcome({:?}) -> {:?}", filter_of(*filter), ret),
        Ev::Clear => "clear_outcome".into(),
        Ev::Reset(o) => format!("reset_outcome({:?})", o),
        Ev::SetOutcome(o) => format!("set_outcome({:?})", o),
    }
}

pub fn fmt_log(events: &[Event], upto: usize) -> String {
    let mut s = String::new();
    let from = upto.saturating_sub(14);
    for (i, e) in events.iter().enumerate().take(upto + 1).skip(from) {
        s.push_str(&format!("#{} {} [len={} last={} outcome={:?}] ; ", i, ev_str(&e.ev), e.obs.len, e.obs.last.raw.as_fen(), e.obs.outcome));
    }
    s
}

#[derive(Clone, Copy, Debug, PartialEq, Eq)]
pub enum Flavor {
    /// mixed pushes of every kind, pops, refused candidates
    Mixed,
    /// cycle-biased shuffles for repetition counting
    Cycles,
}

pub struct History {
    pub start: MPos,
    pub events: Vec<Event>,
    pub chain: MoveChain,
}

/// Any of the 22 outcome values (stored outcomes are free-form: the API does not tie them to the position).
pub fn random_outcome(rng: &mut Rng) -> Outcome {
    let wins = [WinReason::Checkmate, WinReason::TimeForfeit, WinReason::InvalidMove, WinReason::EngineError, WinReason::Resign, WinReason::Abandon, WinReason::Unknown];
    let draws = [DrawReason::Stalemate, DrawReason::InsufficientMaterial, DrawReason::Moves75, DrawReason::Repeat5, DrawReason::Moves50, DrawReason::Repeat3, DrawReason::Agreement, DrawReason::Unknown];
    match rng.below(3) {
        0 => Outcome::Win { side: Color::White, reason: *rng.pick(&wins) },
        1 => Outcome::Win { side: Color::Black, reason: *rng.pick(&wins) },
        _ => Outcome::Draw(*rng.pick(&draws)),
    }
}

fn pick_cycle_move(rng: &mut Rng, cur: &MPos, legal: &[MMove], visited: &[Vec<u8>]) -> MMove {
    // prefer moves that lead back to a position already seen on the line, then quiet piece moves
    let mut back: Vec<MMove> = Vec::new();
    let mut quiet: Vec<MMove> = Vec::new();
    for m in legal {
        if m.kind != MKind::Simple || kind(m.man) == b'P' || cur.is_capture(m) {
            continue;
        }
        quiet.push(*m);
        let k = cur.apply(m).rep_key();
        if visited.iter().any(|v| *v == k) {
            back.push(*m);
        }
    }
    if !back.is_empty() && rng.chance(3, 4) {
        return *rng.pick(&back);
    }
    if !quiet.is_empty() && rng.chance(9, 10) {
        // small set of shufflers: restrict to two pieces to make cycles likely
        let a = quiet[0].from;
        let few: Vec<MMove> = quiet.iter().copied().filter(|m| m.from == a || kind(m.man) == b'K' || kind(m.man) == b'N').collect();
        if !few.is_empty() && rng.chance(2, 3) {
            return *rng.pick(&few);
        }
        return *rng.pick(&quiet);
    }
    *rng.pick(legal)
}

/// Generate and execute one history. Deterministic in (start, seed, flavor, max_ops).
pub fn run_history(start: &MPos, seed: u64, flavor: Flavor, max_ops: usize) -> Option<History> {
    let b0 = to_board(start).ok()?;
    let mut rng = Rng::new(seed);
    let mut events: Vec<Event> = Vec::new();
    // generator-side model line (only to choose operations)
    let mut line: Vec<MPos> = vec![start.clone()];
    // one chain in three is built through the list constructor (with 0-3 legal moves)
    let mut ch = if rng.chance(1, 3) {
        let mut toks: Vec<String> = Vec::new();
        let mut p = start.clone();
        let k = rng.below(4);
        for _ in 0..k {
            let lg = p.legal_moves();
            if lg.is_empty() {
                break;
            }
            let m = *rng.pick(&lg);
            toks.push(m.uci());
            p = p.apply(&m);
            line.push(p.clone());
        }
        let text = toks.join(" ");
        match MoveChain::from_uci_list(b0.clone(), &text) {
            Ok(c) => {
                events.push(Event { ev: Ev::PushList { text, ok: true, err_pos: None }, obs: observe(&c) });
                c
            }
            Err(e) => {
                // a legal list was refused: record it against a fresh chain so that the checker sees it
                let c = MoveChain::new(b0.clone());
                events.push(Event { ev: Ev::PushList { text, ok: false, err_pos: Some(e.pos) }, obs: observe(&c) });
                return Some(History { start: start.clone(), events, chain: c });
            }
        }
    } else {
        MoveChain::new(b0)
    };
    for _ in 0..max_ops {
        let cur = line.last().unwrap().clone();
        let legal = cur.legal_moves();
        let r = rng.below(100);
        let want_push = match flavor {
            Flavor::Mixed => r < 62,
            Flavor::Cycles => r < 72,
        };
        if want_push {
            if ch.is_finished() {
                ch.clear_outcome();
                events.push(Event { ev: Ev::Clear, obs: observe(&ch) });
            }
            let kind_r = rng.below(100);
            if legal.is_empty() || kind_r < 14 {
                // a candidate that must be refused, or free text
                let pseudo = cur.pseudo_moves();
                let bad: Vec<&MMove> = pseudo.iter().filter(|m| !legal.contains(m)).collect();
                match rng.below(6) {
                    0 if !bad.is_empty() => {
                        let m = **rng.pick(&bad);
                        let lm = to_move(&m)?;
                        // the same pseudo-legal but illegal move through every value kind, including
                        // coordinate-form text handed to the SAN entry points
                        let t = m.uci();
                        let (how, ok) = match rng.below(5) {
                            0 => ("Move", ch.push(lm).is_ok()),
                            1 => ("uci::Move", ch.push(lm.uci()).is_ok()),
                            2 => ("Uci", ch.push(make::Uci(t.as_str())).is_ok()),
                            3 => ("San", ch.push(make::San(t.as_str())).is_ok()),
                            _ => match t.parse::<owlchess::moves::san::Move>() {
                                Ok(sm) => ("san::Move", ch.push(sm).is_ok()),
                                Err(_) => ("Move", ch.push(lm).is_ok()),
                            },
                        };
                        events.push(Event { ev: Ev::Push { how, what: format!("illegal {}", t), denotes: Denote::Exact(None), ok }, obs: observe(&ch) });
                    }
                    1 => {
                        let ok = ch.push(Move::NULL).is_ok();
                        events.push(Event { ev: Ev::Push { how: "Move", what: "NULL".into(), denotes: Denote::Exact(None), ok }, obs: observe(&ch) });
                    }
                    2 => {
                        let t = crate::gentext::random_text(&mut rng, crate::gentext::UCI_ALPHABET, 6);
                        let ok = ch.push(make::Uci(t.as_str())).is_ok();
                        events.push(Event { ev: Ev::Push { how: "Uci", what: format!("{:?}", t), denotes: Denote::Free, ok }, obs: observe(&ch) });
                    }
                    3 => {
                        let base = if legal.is_empty() { "e4".to_string() } else { msan::san(&cur, &legal, rng.pick(&legal), false) };
                        let t = crate::gentext::mutate(&mut rng, &base, crate::gentext::SAN_ALPHABET);
                        let ok = ch.push(make::San(t.as_str())).is_ok();
                        events.push(Event { ev: Ev::Push { how: "San", what: format!("{:?}", t), denotes: Denote::Free, ok }, obs: observe(&ch) });
                    }
                    4 => {
                        // uci list with a bad token in the middle
                        let mut toks: Vec<String> = Vec::new();
                        let mut p = cur.clone();
                        let good = rng.below(3);
                        for _ in 0..good {
                            let lg = p.legal_moves();
                            if lg.is_empty() {
                                break;
                            }
                            let m = *rng.pick(&lg);
                            toks.push(m.uci());
                            p = p.apply(&m);
                        }
                        // the bad token: garbage, or a pseudo-legal but illegal move of that position
                        let pbad: Vec<MMove> = { let lg = p.legal_moves(); p.pseudo_moves().into_iter().filter(|m| !lg.contains(m)).collect() };
                        if !pbad.is_empty() && rng.chance(1, 2) {
                            toks.push(rng.pick(&pbad).uci());
                        } else {
                            toks.push(rng.pick(&["zzzz", "e2e5", "0000", "a1a1", "e9e4", "\u{e9}1e2"]).to_string());
                        }
                        let lg = p.legal_moves();
                        if !lg.is_empty() {
                            toks.push(rng.pick(&lg).uci());
                        }
                        let sep = *rng.pick(&[" ", "  ", "\t", " \n"]);
                        let text = toks.join(sep);
                        let r = ch.push_uci_list(&text);
                        let (ok, err_pos) = match &r {
                            Ok(()) => (true, None),
                            Err(e) => (false, Some(e.pos)),
                        };
                        events.push(Event { ev: Ev::PushList { text, ok, err_pos }, obs: observe(&ch) });
                        // resynchronise the generator's line from what was observed
                        let n = ch.len();
                        while line.len() - 1 < n {
                            let mv = ch.get(line.len() - 1);
                            let mm = from_move(&mv)?;
                            let nx = line.last().unwrap().apply(&mm);
                            line.push(nx);
                        }
                        continue;
                    }
                    _ => {
                        // a string from the UCI space that denotes no legal move here
                        let from = rng.below(64) as u8;
                        let to = rng.below(64) as u8;
                        let t = format!("{}{}", sq_name(from), sq_name(to));
                        let hit = legal.iter().find(|m| m.from == from && m.to == to && m.kind.promo_letter().is_none()).copied();
                        let ok = ch.push(make::Uci(t.as_str())).is_ok();
                        events.push(Event { ev: Ev::Push { how: "Uci", what: t, denotes: Denote::Exact(hit), ok }, obs: observe(&ch) });
                    }
                }
                // resynchronise if something unexpected was accepted
                let n = ch.len();
                while line.len() - 1 < n {
                    let mv = ch.get(line.len() - 1);
                    let mm = from_move(&mv)?;
                    let nx = line.last().unwrap().apply(&mm);
                    line.push(nx);
                }
                continue;
            }
            let m = match flavor {
                Flavor::Mixed => crate::gen::pick_game_move(&mut rng, &cur, &legal),
                Flavor::Cycles => {
                    let visited: Vec<Vec<u8>> = line.iter().map(|p| p.rep_key()).collect();
                    pick_cycle_move(&mut rng, &cur, &legal, &visited)
                }
            };
            let lm = to_move(&m)?;
            let den = Denote::Exact(Some(m));
            let (how, what, ok) = match rng.below(6) {
                0 => ("Move", m.uci(), ch.push(lm).is_ok()),
                1 => ("uci::Move", m.uci(), ch.push(lm.uci()).is_ok()),
                2 => ("Uci", m.uci(), ch.push(make::Uci(m.uci())).is_ok()),
                3 => match lm.san(ch.last()) {
                    Ok(sm) => ("san::Move", sm.to_string(), ch.push(sm).is_ok()),
                    Err(_) => ("Move", m.uci(), ch.push(lm).is_ok()),
                },
                4 => {
                    let t = msan::san(&cur, &legal, &m, false);
                    let ok = ch.push(make::San(t.as_str())).is_ok();
                    ("San", t, ok)
                }
                _ => {
                    let t = msan::san_core(&cur, &legal, &m, false);
                    let ok = ch.push(make::San(t.as_str())).is_ok();
                    ("San", t, ok)
                }
            };
            events.push(Event { ev: Ev::Push { how, what, denotes: den, ok }, obs: observe(&ch) });
            if ok && ch.len() == line.len() {
                line.push(cur.apply(&m));
            }
        } else if r < 84 {
            let ret = ch.pop();
            events.push(Event { ev: Ev::Pop { ret }, obs: observe(&ch) });
            if ret.is_some() && line.len() > 1 {
                line.pop();
            }
        } else if r < 90 {
            let ret = ch.calc_outcome();
            events.push(Event { ev: Ev::Calc { ret }, obs: observe(&ch) });
        } else if r < 95 {
            if ch.is_finished() {
                ch.clear_outcome();
                events.push(Event { ev: Ev::Clear, obs: observe(&ch) });
            }
            let f = rng.below(3) as u8;
            let ret = ch.set_auto_outcome(filter_of(f));
            events.push(Event { ev: Ev::SetAuto { filter: f, ret }, obs: observe(&ch) });
        } else if r < 97 {
            let o = if rng.chance(1, 5) { None } else { Some(random_outcome(&mut rng)) };
            ch.reset_outcome(o);
            events.push(Event { ev: Ev::Reset(o), obs: observe(&ch) });
        } else if r < 98 {
            if !ch.is_finished() {
                let o = random_outcome(&mut rng);
                ch.set_outcome(o);
                events.push(Event { ev: Ev::SetOutcome(o), obs: observe(&ch) });
            }
        } else {
            ch.clear_outcome();
            events.push(Event { ev: Ev::Clear, obs: observe(&ch) });
        }
    }
    Some(History { start: start.clone(), events, chain: ch })
}

// ---------------------------------------------------------------------------------------------
// C13 checker
// ---------------------------------------------------------------------------------------------

struct ModelChain {
    line: Vec<MPos>,
    moves: Vec<MMove>,
    fulls: Vec<Full>,
    outcome: Option<Outcome>,
}

fn same_obs(a: &Obs, b: &Obs) -> Option<String> {
    if a.len != b.len || a.moves != b.moves {
        return Some("move list changed".into());
    }
    if a.last != b.last {
        return Some(format!("current position changed: {}", full_diff(&a.last, &b.last)));
    }
    if a.outcome != b.outcome {
        return Some(format!("stored outcome changed {:?} -> {:?}", b.outcome, a.outcome));
    }
    if a.start != b.start {
        return Some("start position changed".into());
    }
    None
}

/// Offline replay of the log against the sequential model. Reports C13 clauses via `report`.
pub fn check_c13(h: &History, report: &mut dyn FnMut(&str, usize, String)) {
    let start_full = match to_board(&h.start) {
        Ok(b) => full(&b),
        Err(_) => return,
    };
    let mut mc = ModelChain { line: vec![h.start.clone()], moves: vec![], fulls: vec![start_full.clone()], outcome: None };
    let mut prev = Obs { len: 0, moves: vec![], last: start_full, outcome: None, start: crate::conv::to_raw(&h.start), repeat: vec![] };
    for (i, e) in h.events.iter().enumerate() {
        let o = &e.obs;
        if o.start != prev.start {
            report("start_position_changed", i, "startpos() differs from the recorded start".into());
            return;
        }
        match &e.ev {
            Ev::Push { denotes, ok, .. } => {
                let cur = mc.line.last().unwrap().clone();
                let legal = cur.legal_moves();
                if *ok {
                    if o.len != prev.len + 1 || o.moves[..prev.len] != prev.moves[..] {
                        report("accepted_push_list_not_extended_by_one", i, format!("len {} -> {}", prev.len, o.len));
                        return;
                    }
                    let Some(mm) = from_move(&o.moves[prev.len]) else {
                        report("null_move_recorded", i, "".into());
                        return;
                    };
                    if !legal.contains(&mm) {
                        report("accepted_push_of_illegal_move", i, format!("{:?} is not legal in {}", mm, mfen::to_xfen(&cur)));
                        return;
                    }
                    match denotes {
                        Denote::Exact(Some(m)) if *m != mm => {
                            report("recorded_move_is_not_the_pushed_one", i, format!("pushed {:?} recorded {:?}", m, mm));
                            return;
                        }
                        Denote::Exact(None) => {
                            report("push_accepted_a_candidate_denoting_no_legal_move", i, format!("recorded {:?}", mm));
                            return;
                        }
                        _ => {}
                    }
                    let nx = cur.apply(&mm);
                    if from_raw(&o.last.raw) != nx {
                        report("current_position_is_not_the_replay", i, format!("last {} replay {}", o.last.raw.as_fen(), mfen::to_fen(&nx)));
                        return;
                    }
                    mc.line.push(nx);
                    mc.moves.push(mm);
                    mc.fulls.push(o.last.clone());
                } else {
                    if let Denote::Exact(Some(m)) = denotes {
                        report("legal_push_refused", i, format!("{:?} in {}", m, mfen::to_xfen(&cur)));
                        return;
                    }
                    if let Some(d) = same_obs(o, &prev) {
                        report("refused_push_changed_the_chain", i, d);
                        return;
                    }
                }
            }
            Ev::PushList { text, ok, err_pos } => {
                // sequential expectation, token by token
                let mut k = 0usize;
                let mut all = true;
                let mut p = mc.line.last().unwrap().clone();
                let mut exp_moves: Vec<MMove> = Vec::new();
                for tok in text.split_ascii_whitespace() {
                    let lg = p.legal_moves();
                    match lg.iter().find(|m| m.uci() == tok) {
                        Some(m) => {
                            exp_moves.push(*m);
                            p = p.apply(m);
                            k += 1;
                        }
                        None => {
                            all = false;
                            break;
                        }
                    }
                }
                if *ok != all || (!all && *err_pos != Some(k)) {
                    report("uci_list_result", i, format!("ok={} err_pos={:?}; expected ok={} after {} tokens", ok, err_pos, all, k));
                    return;
                }
                if o.len != prev.len + k || o.moves[..prev.len] != prev.moves[..] {
                    report("uci_list_pushed_wrong_prefix", i, format!("len {} -> {}, expected +{}", prev.len, o.len, k));
                    return;
                }
                for (j, m) in exp_moves.iter().enumerate() {
                    if from_move(&o.moves[prev.len + j]).as_ref() != Some(m) {
                        report("uci_list_recorded_wrong_move", i, format!("token {}", j));
                        return;
                    }
                    let nx = mc.line.last().unwrap().apply(m);
                    mc.line.push(nx);
                    mc.moves.push(*m);
                    // intermediate full states are not observable; recompute by fresh replay below
                    mc.fulls.push(o.last.clone());
                }
                if from_raw(&o.last.raw) != *mc.line.last().unwrap() {
                    report("current_position_is_not_the_replay", i, format!("after list: {}", o.last.raw.as_fen()));
                    return;
                }
                // fix the intermediate fulls by a fresh library replay
                if k > 1 {
                    if let Ok(mut b) = Board::try_from(o.start) {
                        let n0 = mc.fulls.len() - k;
                        for (j, mv) in o.moves.iter().enumerate() {
                            match b.make_move(*mv) {
                                Ok(nb) => b = nb,
                                Err(_) => break,
                            }
                            if j + 1 >= n0 && j + 1 < mc.fulls.len() {
                                mc.fulls[j + 1] = full(&b);
                            }
                        }
                    }
                }
            }
            Ev::Pop { ret } => {
                if prev.len == 0 {
                    if ret.is_some() {
                        report("pop_on_empty_returned_a_move", i, format!("{:?}", ret));
                        return;
                    }
                    let mut p2 = prev.clone();
                    p2.outcome = o.outcome; // pop on empty: "remains unchanged" (outcome handling checked below)
                    if let Some(d) = same_obs(o, &prev) {
                        report("pop_on_empty_changed_the_chain", i, d);
                        return;
                    }
                } else {
                    if *ret != Some(prev.moves[prev.len - 1]) {
                        report("pop_returned_wrong_move", i, format!("{:?}", ret.map(|m| m.to_string())));
                        return;
                    }
                    if o.len != prev.len - 1 || o.moves[..] != prev.moves[..prev.len - 1] {
                        report("pop_did_not_remove_exactly_the_last_move", i, format!("len {} -> {}", prev.len, o.len));
                        return;
                    }
                    mc.line.pop();
                    mc.moves.pop();
                    mc.fulls.pop();
                    let want = mc.fulls.last().unwrap();
                    if o.last != *want {
                        report("pop_did_not_restore_the_position", i, full_diff(&o.last, want));
                        return;
                    }
                    if o.outcome.is_some() {
                        report("pop_did_not_clear_the_outcome", i, format!("{:?}", o.outcome));
                        return;
                    }
                }
            }
            Ev::Calc { .. } => {
                if let Some(d) = same_obs(o, &prev) {
                    report("calc_outcome_changed_the_chain", i, d);
                    return;
                }
            }
            Ev::SetAuto { ret, .. } => {
                let mut p2 = prev.clone();
                p2.outcome = *ret;
                if let Some(d) = same_obs(o, &p2) {
                    report("set_auto_outcome_changed_more_than_the_outcome", i, d);
                    return;
                }
            }
            Ev::Clear => {
                let mut p2 = prev.clone();
                p2.outcome = None;
                if let Some(d) = same_obs(o, &p2) {
                    report("clear_outcome_effect", i, d);
                    return;
                }
            }
            Ev::Reset(x) => {
                let mut p2 = prev.clone();
                p2.outcome = *x;
                if let Some(d) = same_obs(o, &p2) {
                    report("reset_outcome_effect", i, d);
                    return;
                }
            }
            Ev::SetOutcome(x) => {
                let mut p2 = prev.clone();
                p2.outcome = Some(*x);
                if let Some(d) = same_obs(o, &p2) {
                    report("set_outcome_effect", i, d);
                    return;
                }
            }
        }
        mc.outcome = o.outcome;
        // derived state of the in-place board, and agreement with a fresh library replay
        let scratch = full_from_scratch(&o.last.raw);
        if o.last != scratch {
            report("chain_board_derived_state", i, full_diff(&o.last, &scratch));
            return;
        }
        if i % 7 == 0 || i + 1 == h.events.len() {
            if let Ok(mut b) = Board::try_from(o.start) {
                let mut okr = true;
                for mv in &o.moves {
                    match b.make_move(*mv) {
                        Ok(nb) => b = nb,
                        Err(_) => {
                            okr = false;
                            break;
                        }
                    }
                }
                if !okr || full(&b) != o.last {
                    report("current_position_differs_from_fresh_library_replay", i, full_diff(&o.last, &full(&b)));
                    return;
                }
            }
        }
        prev = o.clone();
    }
}

// ---------------------------------------------------------------------------------------------
// C14 checker
// ---------------------------------------------------------------------------------------------

pub fn passes(o: &Outcome, f: u8) -> bool {
    let forced = matches!(o, Outcome::Win { reason: WinReason::Checkmate, .. } | Outcome::Draw(DrawReason::Stalemate));
    let mandatory = matches!(o, Outcome::Draw(DrawReason::InsufficientMaterial | DrawReason::Moves75 | DrawReason::Repeat5));
    let claimable = matches!(o, Outcome::Draw(DrawReason::Moves50 | DrawReason::Repeat3));
    forced || (mandatory && f >= 1) || (claimable && f == 2)
}

pub struct Expected {
    pub forced: Option<Outcome>,
    pub mandatory: Vec<DrawReason>,
    pub claimable: Vec<DrawReason>,
    pub count: usize,
}

pub fn expected_outcome(line: &[MPos]) -> Expected {
    let cur = line.last().unwrap();
    let key = cur.rep_key();
    let count = line.iter().filter(|p| p.rep_key() == key).count();
    let forced = if cur.legal_moves().is_empty() {
        Some(if cur.in_check() {
            Outcome::Win { side: if cur.white_to_move { Color::Black } else { Color::White }, reason: WinReason::Checkmate }
        } else {
            Outcome::Draw(DrawReason::Stalemate)
        })
    } else {
        None
    };
    let mut mandatory = Vec::new();
    if cur.insufficient_material() {
        mandatory.push(DrawReason::InsufficientMaterial);
    }
    if cur.halfmove >= 150 {
        mandatory.push(DrawReason::Moves75);
    }
    if count >= 5 {
        mandatory.push(DrawReason::Repeat5);
    }
    let mut claimable = Vec::new();
    if count >= 3 {
        claimable.push(DrawReason::Repeat3);
    }
    if cur.halfmove >= 100 {
        claimable.push(DrawReason::Moves50);
    }
    Expected { forced, mandatory, claimable, count }
}

pub fn outcome_ok(exp: &Expected, got: &Option<Outcome>) -> bool {
    if let Some(f) = &exp.forced {
        return got.as_ref() == Some(f);
    }
    if !exp.mandatory.is_empty() {
        return matches!(got, Some(Outcome::Draw(r)) if exp.mandatory.contains(r));
    }
    if !exp.claimable.is_empty() {
        return matches!(got, Some(Outcome::Draw(r)) if exp.claimable.contains(r));
    }
    got.is_none()
}

pub fn check_c14(h: &History, report: &mut dyn FnMut(&str, usize, String), feature: &mut dyn FnMut(&str)) {
    let mut line: Vec<MPos> = vec![h.start.clone()];
    let Ok(b0) = to_board(&h.start) else { return };
    let mut hashes: Vec<u64> = vec![b0.zobrist_hash()];
    let mut prev_outcome: Option<Outcome> = None;
    for (i, e) in h.events.iter().enumerate() {
        let o = &e.obs;
        // resynchronise the line from the observed move list (C13 checks its correctness)
        while line.len() - 1 > o.len {
            line.pop();
            hashes.pop();
        }
        while line.len() - 1 < o.len {
            let Some(mm) = from_move(&o.moves[line.len() - 1]) else { return };
            let nx = line.last().unwrap().apply(&mm);
            line.push(nx);
            // the hash of intermediate positions is only known for the last one; recompute
            let hsh = crate::conv::to_raw(line.last().unwrap()).zobrist_hash();
            hashes.push(hsh);
        }
        if from_raw(&o.last.raw) != *line.last().unwrap() {
            return; // C13's business
        }
        // repetition table invariant (hook): multiset of hashes of the positions on the chain
        let mut want: Vec<(u64, usize)> = Vec::new();
        let mut hs = hashes.clone();
        hs.sort();
        for x in hs {
            match want.last_mut() {
                Some((k, c)) if *k == x => *c += 1,
                _ => want.push((x, 1)),
            }
        }
        if o.repeat != want {
            report("repetition_table_is_not_the_multiset_of_positions_on_the_chain", i, format!("table has {} entries / {} positions, expected {} / {}", o.repeat.len(), o.repeat.iter().map(|x| x.1).sum::<usize>(), want.len(), hashes.len()));
            return;
        }
        let exp = expected_outcome(&line);
        match &e.ev {
            Ev::Calc { ret } => {
                if !outcome_ok(&exp, ret) {
                    report("calc_outcome", i, format!("library {:?}; forced {:?} mandatory {:?} claimable {:?} (occurrences {})", ret, exp.forced, exp.mandatory, exp.claimable, exp.count));
                    return;
                }
                note_features(&exp, ret, feature);
            }
            Ev::SetAuto { filter, ret } => {
                // what calc_outcome would say is not recorded; any applicable outcome of the
                // right class must have been considered
                if prev_outcome.is_some() {
                    return; // generator error; cannot judge
                }
                match ret {
                    Some(r) => {
                        if !outcome_ok(&exp, &Some(*r)) {
                            report("set_auto_outcome_stored_wrong_outcome", i, format!("stored {:?}; forced {:?} mandatory {:?} claimable {:?}", r, exp.forced, exp.mandatory, exp.claimable));
                            return;
                        }
                        if !passes(r, *filter) {
                            report("set_auto_outcome_ignored_filter", i, format!("{:?} does not pass {:?}", r, filter_of(*filter)));
                            return;
                        }
                    }
                    None => {
                        // must be because nothing applies or the applicable class does not pass
                        let class_passes = if exp.forced.is_some() {
                            true
                        } else if !exp.mandatory.is_empty() {
                            *filter >= 1
                        } else if !exp.claimable.is_empty() {
                            *filter == 2
                        } else {
                            false
                        };
                        if class_passes {
                            report("set_auto_outcome_did_not_store", i, format!("filter {:?}; forced {:?} mandatory {:?} claimable {:?}", filter_of(*filter), exp.forced, exp.mandatory, exp.claimable));
                            return;
                        }
                    }
                }
                if o.outcome != *ret {
                    report("set_auto_outcome_return_differs_from_stored", i, format!("returned {:?} stored {:?}", ret, o.outcome));
                    return;
                }
                feature(&format!("set_auto_{:?}_{}", filter_of(*filter), if ret.is_some() { "stored" } else { "not_stored" }));
                note_features(&exp, ret, feature);
            }
            _ => {}
        }
        prev_outcome = o.outcome;
    }
}

fn note_features(exp: &Expected, got: &Option<Outcome>, feature: &mut dyn FnMut(&str)) {
    if exp.count >= 5 {
        feature("occurrences_5plus");
    } else if exp.count >= 3 {
        feature("occurrences_3plus");
    } else if exp.count == 2 {
        feature("occurrences_2");
    }
    if exp.forced.is_some() {
        feature("forced_outcome");
    }
    if exp.mandatory.len() >= 2 {
        feature("several_mandatory_reasons");
    }
    if !exp.mandatory.is_empty() && !exp.claimable.is_empty() {
        feature("mandatory_and_claimable_together");
    }
    if exp.claimable.len() >= 2 && exp.mandatory.is_empty() && exp.forced.is_none() {
        feature("repeat3_and_moves50_together");
    }
    if let Some(Outcome::Draw(r)) = got {
        feature(&format!("outcome_{:?}", r));
    }
    if got.is_none() {
        feature("outcome_none");
    }
}

// ---------------------------------------------------------------------------------------------
// C17: walker programs and printing on the final chain of a history
// ---------------------------------------------------------------------------------------------

fn status_token(o: &Option<Outcome>) -> &'static str {
    match o {
        None => "*",
        Some(Outcome::Win { side: Color::White, .. }) => "1-0",
        Some(Outcome::Win { side: Color::Black, .. }) => "0-1",
        Some(Outcome::Draw(_)) => "1/2-1/2",
    }
}

/// The harness's own formatter for the styled move list.
pub fn format_styled(line: &[MPos], moves: &[MMove], nums: Option<u64>, style: u8, show: bool, outcome: &Option<Outcome>) -> String {
    let mut s = String::new();
    if moves.is_empty() {
        if show {
            s.push_str(status_token(outcome));
        }
        return s;
    }
    let start_full = line[0].fullmove as u64;
    for (i, m) in moves.iter().enumerate() {
        let q = &line[i];
        let text = match style {
            0 => msan::san(q, &q.legal_moves(), m, false),
            1 => msan::san(q, &q.legal_moves(), m, true),
            _ => m.uci(),
        };
        if i == 0 {
            if let Some(n) = nums {
                if q.white_to_move {
                    s.push_str(&format!("{}. ", n));
                } else {
                    s.push_str(&format!("{}... ", n));
                }
            }
            s.push_str(&text);
        } else {
            if let Some(n) = nums {
                if q.white_to_move {
                    s.push_str(&format!(" {}.", q.fullmove as u64 - start_full + n));
                }
            }
            s.push(' ');
            s.push_str(&text);
        }
    }
    if show {
        s.push(' ');
        s.push_str(status_token(outcome));
    }
    s
}

pub fn check_c17(ctx: &mut Ctx, h: &History, case: &str, seed: u64) {
    let ch = &h.chain;
    let before = observe(ch);
    // model replay of the final chain
    let mut line: Vec<MPos> = vec![h.start.clone()];
    let mut moves: Vec<MMove> = Vec::new();
    for mv in &before.moves {
        let Some(mm) = from_move(mv) else { return };
        if !line.last().unwrap().legal_moves().contains(&mm) {
            return; // C13's business
        }
        let nx = line.last().unwrap().apply(&mm);
        line.push(nx);
        moves.push(mm);
    }
    // full states by fresh library replay
    let Ok(mut b) = Board::try_from(before.start) else { return };
    let mut fulls: Vec<Full> = vec![full(&b)];
    for mv in &before.moves {
        match b.make_move(*mv) {
            Ok(nb) => b = nb,
            Err(_) => return,
        }
        fulls.push(full(&b));
    }
    let n = moves.len();
    let mut rng = Rng::new(seed ^ 0x17);

    // walker program
    let mut w = ch.walk();
    let mut pos = 0usize;
    let ops = 20 + rng.below(120);
    let mut prog = String::new();
    let mut run_dir: Option<bool> = None;
    for _ in 0..ops {
        // long runs in one direction and rapid reversals
        let dir = match run_dir {
            Some(d) if rng.chance(3, 4) => d,
            _ => rng.chance(1, 2),
        };
        run_dir = Some(dir);
        let op = rng.below(20);
        ctx.eval(1);
        if op == 0 {
            w.start();
            pos = 0;
            prog.push('S');
        } else if op == 1 {
            w.end();
            pos = n;
            prog.push('E');
        } else if dir {
            prog.push('n');
            let r = w.next();
            if pos == n {
                if r.is_some() {
                    ctx.violation("walker_next_past_the_end", &format!("{}|walk:{}", case, prog), "next() returned a move at the end");
                    return;
                }
                ctx.feature("walker_none_at_end");
            } else {
                match r {
                    None => {
                        ctx.violation("walker_next_returned_none", &format!("{}|walk:{}", case, prog), &format!("at pos {} of {}", pos, n));
                        return;
                    }
                    Some((wb, mv)) => {
                        if mv != before.moves[pos] {
                            ctx.violation("walker_next_wrong_move", &format!("{}|walk:{}", case, prog), &format!("pos {}: {} want {}", pos, mv, before.moves[pos]));
                            return;
                        }
                        let f = full(wb);
                        if f != fulls[pos] {
                            ctx.violation("walker_next_wrong_position", &format!("{}|walk:{}", case, prog), &format!("pos {}: {}", pos, full_diff(&f, &fulls[pos])));
                            return;
                        }
                        pos += 1;
                    }
                }
            }
        } else {
            prog.push('p');
            let r = w.prev();
            if pos == 0 {
                if r.is_some() {
                    ctx.violation("walker_prev_before_the_start", &format!("{}|walk:{}", case, prog), "prev() returned a move at the start");
                    return;
                }
                ctx.feature("walker_none_at_start");
            } else {
                match r {
                    None => {
                        ctx.violation("walker_prev_returned_none", &format!("{}|walk:{}", case, prog), &format!("at pos {} of {}", pos, n));
                        return;
                    }
                    Some((wb, mv)) => {
                        pos -= 1;
                        if mv != before.moves[pos] {
                            ctx.violation("walker_prev_wrong_move", &format!("{}|walk:{}", case, prog), &format!("pos {}: {} want {}", pos, mv, before.moves[pos]));
                            return;
                        }
                        let f = full(wb);
                        if f != fulls[pos] {
                            ctx.violation("walker_prev_wrong_position", &format!("{}|walk:{}", case, prog), &format!("pos {}: {}", pos, full_diff(&f, &fulls[pos])));
                            return;
                        }
                    }
                }
            }
        }
        if w.pos() != pos || w.len() != n || w.is_empty() != (n == 0) {
            ctx.violation("walker_pos_or_len", &format!("{}|walk:{}", case, prog), &format!("pos() {} want {}, len() {} want {}", w.pos(), pos, w.len(), n));
            return;
        }
    }
    drop(w);
    ctx.feature_n("walker_ops", ops as u64);
    let after = observe(ch);
    if let Some(d) = same_obs(&after, &before) {
        ctx.violation("walking_changed_the_chain", case, &d);
        return;
    }

    // UCI list text rebuilds an equal chain
    ctx.eval(1);
    let text = ch.uci().to_string();
    let want_text: Vec<String> = moves.iter().map(|m| m.uci()).collect();
    if text != want_text.join(" ") {
        ctx.violation("uci_list_text", case, &format!("library {:?} expected {:?}", text, want_text.join(" ")));
    }
    match Board::try_from(before.start) {
        Ok(sb) => match MoveChain::from_uci_list(sb, &text) {
            Ok(ch2) => {
                let mut a = ch.clone();
                a.clear_outcome();
                if ch2 != a || a != ch2 {
                    ctx.violation("uci_list_does_not_rebuild_an_equal_chain", case, &text);
                }
                if full(ch2.last()) != before.last {
                    ctx.violation("uci_list_rebuilt_chain_position_differs", case, &full_diff(&full(ch2.last()), &before.last));
                }
            }
            Err(e) => ctx.violation("uci_list_does_not_rebuild_an_equal_chain", case, &format!("{:?}: {:?}", text, e)),
        },
        Err(_) => {}
    }

    // styled output, all policy combinations (domain: numbers that do not saturate)
    if (line[0].fullmove as usize) + n + 1 < 65535 {
        for nums_i in 0..3 {
            let custom = match rng.below(4) {
                0 => 0usize,
                1 => 1,
                2 => rng.below(1000),
                _ => (1usize << 32) - n - 2,
            };
            let (np, nn) = match nums_i {
                0 => (NumberPolicy::Omit, None),
                1 => (NumberPolicy::FromBoard, Some(line[0].fullmove as u64)),
                _ => (NumberPolicy::Custom(custom), Some(custom as u64)),
            };
            for style_i in 0..3u8 {
                let st = match style_i {
                    0 => Style::San,
                    1 => Style::SanUtf8,
                    _ => Style::Uci,
                };
                for show in [true, false] {
                    ctx.eval(1);
                    let gp = if show { GameStatusPolicy::Show } else { GameStatusPolicy::Hide };
                    let pcase = format!("{}|styled:{}:{}:{}", case, nums_i, style_i, show);
                    let Some(got) = ctx.guard("styled", &pcase, || ch.styled(np, st, gp).to_string()) else { continue };
                    let want = format_styled(&line, &moves, nn, style_i, show, &before.outcome);
                    if got != want {
                        ctx.violation("styled_list_text", &pcase, &format!("library {:?} expected {:?}", got, want));
                        return;
                    }
                }
            }
        }
        // explicit stored outcomes (free-form in the API), on this chain and on an empty one
        let Ok(sb) = Board::try_from(before.start) else { return };
        for o in [None, Some(random_outcome(&mut rng)), Some(Outcome::Win { side: Color::White, reason: WinReason::Checkmate }), Some(Outcome::Win { side: Color::Black, reason: WinReason::Resign }), Some(Outcome::Draw(DrawReason::Stalemate))] {
            for empty in [false, true] {
                ctx.eval(1);
                let pcase = format!("{}|styled_outcome:{:?}:{}", case, o, empty);
                let Some(got) = ctx.guard("styled", &pcase, || {
                    let mut c2 = if empty { MoveChain::new(sb.clone()) } else { ch.clone() };
                    c2.reset_outcome(o);
                    c2.styled(NumberPolicy::FromBoard, Style::San, GameStatusPolicy::Show).to_string()
                }) else { continue };
                let want = if empty { format_styled(&line[..1], &[], Some(line[0].fullmove as u64), 0, true, &o) } else { format_styled(&line, &moves, Some(line[0].fullmove as u64), 0, true, &o) };
                if got != want {
                    ctx.violation("styled_list_status_token", &pcase, &format!("library {:?} expected {:?}", got, want));
                    return;
                }
            }
        }
        ctx.feature("styled_combinations_checked");
        if !line[0].white_to_move && n > 0 {
            ctx.feature("styled_black_first");
        }
        if before.outcome.is_some() {
            ctx.feature("styled_with_outcome");
        }
        if n == 0 {
            ctx.feature("styled_empty_chain");
        }
    }
}

/// Equality clause of C13 on the final chain of a history.
pub fn check_equality(ctx: &mut Ctx, h: &History, case: &str, seed: u64) {
    let ch = &h.chain;
    let obs = observe(ch);
    let mut rng = Rng::new(seed ^ 0xE0);
    let Ok(sb) = Board::try_from(obs.start) else { return };
    ctx.eval(4);
    // same history by another route: refused pushes and push/pop detours in between
    let r = crate::ctx::catch(|| {
        let mut other = MoveChain::new(sb.clone());
        for mv in &obs.moves {
            if rng.chance(1, 3) {
                let _ = other.push(make::Uci("a1a1"));
                let _ = other.push(Move::NULL);
            }
            if rng.chance(1, 4) {
                // detour: push some legal move and pop it again
                let lg = owlchess::movegen::legal::gen_all(other.last());
                if !lg.is_empty() {
                    let d = lg[rng.below(lg.len())];
                    if other.push(d).is_ok() {
                        other.pop();
                    }
                }
            }
            let _ = other.push(make::Uci(mv.to_string()));
        }
        other.reset_outcome(obs.outcome);
        other
    });
    let other = match r {
        Ok(o) => o,
        Err(msg) => {
            ctx.violation(&format!("panic:equality:{}", crate::ctx::panic_site(&msg)), case, &msg);
            return;
        }
    };
    if !(other == *ch && *ch == other) {
        ctx.violation("equal_chains_compare_unequal", case, "same start, same moves, same outcome, built by another route");
        return;
    }
    if ch.clone() != *ch {
        ctx.violation("clone_compares_unequal", case, "");
    }
    // differ in exactly one aspect
    let mut d = other.clone();
    d.reset_outcome(match obs.outcome {
        None => Some(Outcome::Draw(DrawReason::Agreement)),
        Some(Outcome::Draw(DrawReason::Agreement)) => Some(Outcome::Draw(DrawReason::Unknown)),
        Some(_) => None,
    });
    if d == *ch || *ch == d {
        ctx.violation("chains_with_different_outcome_compare_equal", case, &format!("{:?} vs {:?}", d.outcome(), ch.outcome()));
    }
    if obs.len > 0 {
        let mut d = other.clone();
        d.pop();
        d.reset_outcome(obs.outcome);
        if d == *ch || *ch == d {
            ctx.violation("chains_with_different_length_compare_equal", case, "");
        }
        // different last move
        let lg = owlchess::movegen::legal::gen_all(d.last());
        // prefer the closest look-alike: same squares with another promotion piece, same destination
        let last = obs.moves[obs.len - 1];
        let alt = lg
            .iter()
            .find(|m| **m != last && m.src() == last.src() && m.dst() == last.dst())
            .or_else(|| lg.iter().find(|m| **m != last && m.dst() == last.dst()))
            .or_else(|| lg.iter().find(|m| **m != last));
        if let Some(alt) = alt {
            if alt.src() == last.src() && alt.dst() == last.dst() {
                ctx.feature("equality_same_squares_other_promotion");
            }
            d.clear_outcome();
            if d.push(*alt).is_ok() {
                d.reset_outcome(obs.outcome);
                if d == *ch || *ch == d {
                    ctx.violation("chains_with_different_last_move_compare_equal", case, &format!("{} vs {}", alt, obs.moves[obs.len - 1]));
                }
                ctx.feature("equality_different_move");
            }
        }
    }
    // different start squares (an extra bystander pawn), same moves where they are still legal
    {
        let mut sp = from_raw(&obs.start);
        let spot = (0..64u8).filter(|&x| sp.at(x) == EMPTY && rank_of(x) != 0 && rank_of(x) != 7).nth(rng.below(8));
        if let Some(x) = spot {
            sp.sq[x as usize] = if rng.chance(1, 2) { b'P' } else { b'p' };
            if sp.count(true) <= 16 && sp.count(false) <= 16 {
                if let Ok(sb2) = to_board(&sp) {
                    if let Ok(mut d) = MoveChain::from_uci_list(sb2, &ch.uci().to_string()) {
                        d.reset_outcome(obs.outcome);
                        if d == *ch || *ch == d {
                            ctx.violation("chains_with_different_start_squares_compare_equal", case, &format!("extra man on {}", sq_name(x)));
                        }
                        ctx.feature("equality_different_start_squares");
                    }
                }
            }
        }
    }
    // different start counters (same squares, same moves)
    let mut raw = obs.start;
    raw.move_number = if raw.move_number > 500 { raw.move_number - 300 } else { raw.move_number + 300 };
    if let Ok(sb2) = Board::try_from(raw) {
        if let Ok(mut d) = MoveChain::from_uci_list(sb2, &ch.uci().to_string()) {
            d.reset_outcome(obs.outcome);
            if d == *ch || *ch == d {
                ctx.violation("chains_with_different_start_counters_compare_equal", case, "");
            }
            ctx.feature("equality_different_start_counters");
        }
    }
    ctx.feature("equality_checks");
}
