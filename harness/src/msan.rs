//! Model SAN writer (standard algebraic notation) and a tokenizer for the standard SAN forms.

use crate::model::*;

/// SAN without the check suffix. `legal` must be the legal moves of `p`; `m` one of them.
pub fn san_core(p: &MPos, legal: &[MMove], m: &MMove, utf8: bool) -> String {
    let glyph = |k: u8| -> String {
        if utf8 {
            match k {
                b'P' => "♙",
                b'N' => "♘",
                b'B' => "♗",
                b'R' => "♖",
                b'Q' => "♕",
                b'K' => "♔",
                _ => "?",
            }
            .to_string()
        } else {
            (k as char).to_string()
        }
    };
    match m.kind {
        MKind::CastleK => return "O-O".to_string(),
        MKind::CastleQ => return "O-O-O".to_string(),
        _ => {}
    }
    let mut s = String::new();
    let k = kind(m.man);
    if k == b'P' {
        if p.is_capture(m) {
            s.push((b'a' + file_of(m.from)) as char);
            s.push('x');
        }
        s.push_str(&sq_name(m.to));
        if let Some(pl) = m.kind.promo_letter() {
            if !utf8 {
                s.push('=');
            }
            s.push_str(&glyph(pl));
        }
        return s;
    }
    s.push_str(&glyph(k));
    let others: Vec<&MMove> = legal
        .iter()
        .filter(|o| o.man == m.man && o.to == m.to && o.from != m.from && o.kind == MKind::Simple)
        .collect();
    if !others.is_empty() {
        let same_file = others.iter().any(|o| file_of(o.from) == file_of(m.from));
        let same_rank = others.iter().any(|o| rank_of(o.from) == rank_of(m.from));
        if !same_file {
            s.push((b'a' + file_of(m.from)) as char);
        } else if !same_rank {
            s.push((b'1' + rank_of(m.from)) as char);
        } else {
            s.push((b'a' + file_of(m.from)) as char);
            s.push((b'1' + rank_of(m.from)) as char);
        }
    }
    if p.is_capture(m) {
        s.push('x');
    }
    s.push_str(&sq_name(m.to));
    s
}

pub fn check_suffix(p: &MPos, m: &MMove) -> &'static str {
    let n = p.apply(m);
    if n.in_check() {
        if n.legal_moves().is_empty() {
            "#"
        } else {
            "+"
        }
    } else {
        ""
    }
}

pub fn san(p: &MPos, legal: &[MMove], m: &MMove, utf8: bool) -> String {
    let mut s = san_core(p, legal, m, utf8);
    s.push_str(check_suffix(p, m));
    s
}

#[derive(Clone, Debug, PartialEq, Eq)]
pub enum SanTok {
    Castle { kingside: bool },
    Piece { kind: u8, from_file: Option<u8>, from_rank: Option<u8>, to: Sq },
    PawnPush { to: Sq, promo: Option<u8> },
    PawnCapture { from_file: u8, to: Sq, promo: Option<u8> },
    PawnCaptureShort { from_file: u8, to_file: u8, promo: Option<u8> },
}

fn is_file(b: u8) -> bool {
    (b'a'..=b'h').contains(&b)
}
fn is_rank(b: u8) -> bool {
    (b'1'..=b'8').contains(&b)
}

/// Recognises the standard SAN forms (ASCII only). Returns `None` for anything else.
pub fn tokenize(text: &str) -> Option<SanTok> {
    if !text.is_ascii() {
        return None;
    }
    let mut b = text.as_bytes();
    // at most one check suffix: "+", "++", "#"
    if let Some(r) = b.strip_suffix(b"++") {
        b = r;
    } else if let Some(r) = b.strip_suffix(b"+") {
        b = r;
    } else if let Some(r) = b.strip_suffix(b"#") {
        b = r;
    }
    match b {
        b"O-O" | b"0-0" => return Some(SanTok::Castle { kingside: true }),
        b"O-O-O" | b"0-0-0" => return Some(SanTok::Castle { kingside: false }),
        _ => {}
    }
    if b.is_empty() {
        return None;
    }
    if b"NBRQK".contains(&b[0]) {
        let k = b[0];
        let rest = &b[1..];
        if rest.len() < 2 {
            return None;
        }
        let (hint, dst) = rest.split_at(rest.len() - 2);
        if !is_file(dst[0]) || !is_rank(dst[1]) {
            return None;
        }
        let to = sq(dst[0] - b'a', dst[1] - b'1');
        let mut h = hint;
        let mut from_file = None;
        let mut from_rank = None;
        if let Some(&c) = h.first() {
            if is_file(c) {
                from_file = Some(c - b'a');
                h = &h[1..];
            }
        }
        if let Some(&c) = h.first() {
            if is_rank(c) {
                from_rank = Some(c - b'1');
                h = &h[1..];
            }
        }
        if let Some(&c) = h.first() {
            if c == b'x' {
                h = &h[1..];
            }
        }
        if !h.is_empty() {
            return None;
        }
        return Some(SanTok::Piece { kind: k, from_file, from_rank, to });
    }
    // pawn forms
    let mut promo = None;
    if let Some((&last, rest)) = b.split_last() {
        if b"NBRQ".contains(&last) {
            promo = Some(last);
            b = rest;
            if let Some(r) = b.strip_suffix(b"=") {
                b = r;
            }
        }
    }
    match b.len() {
        2 if is_file(b[0]) && is_rank(b[1]) => Some(SanTok::PawnPush { to: sq(b[0] - b'a', b[1] - b'1'), promo }),
        2 if is_file(b[0]) && is_file(b[1]) => Some(SanTok::PawnCaptureShort { from_file: b[0] - b'a', to_file: b[1] - b'a', promo }),
        4 if is_file(b[0]) && b[1] == b'x' && is_file(b[2]) && is_rank(b[3]) => Some(SanTok::PawnCapture {
            from_file: b[0] - b'a',
            to: sq(b[2] - b'a', b[3] - b'1'),
            promo,
        }),
        _ => None,
    }
}

/// Does the (legal) move agree with every token written in the text?
pub fn agrees(tok: &SanTok, m: &MMove) -> bool {
    let is_pawn = kind(m.man) == b'P';
    match tok {
        SanTok::Castle { kingside } => {
            (m.kind == MKind::CastleK && *kingside) || (m.kind == MKind::CastleQ && !*kingside)
        }
        SanTok::Piece { kind: k, from_file, from_rank, to } => {
            m.kind == MKind::Simple
                && kind(m.man) == *k
                && m.to == *to
                && from_file.map(|f| file_of(m.from) == f).unwrap_or(true)
                && from_rank.map(|r| rank_of(m.from) == r).unwrap_or(true)
        }
        SanTok::PawnPush { to, promo } => {
            is_pawn && file_of(m.from) == file_of(m.to) && m.to == *to && m.kind.promo_letter() == *promo
        }
        SanTok::PawnCapture { from_file, to, promo } => {
            is_pawn
                && file_of(m.from) == *from_file
                && file_of(m.from) != file_of(m.to)
                && m.to == *to
                && m.kind.promo_letter() == *promo
        }
        SanTok::PawnCaptureShort { from_file, to_file, promo } => {
            is_pawn
                && file_of(m.from) == *from_file
                && file_of(m.to) == *to_file
                && file_of(m.from) != file_of(m.to)
                && m.kind.promo_letter() == *promo
        }
    }
}
