//! C04 — undoing a move restores the position exactly (squares, counters, hash, all sets).

use super::*;
use crate::conv::{full, full_diff, to_move, Full};
use crate::stream::Sources;
use owlchess::movegen::semilegal;
use owlchess::moves::{self, make, Make, Move};
use owlchess::Board;

fn mv_str(m: &MMove) -> String {
    format!("{:?}:{}:{}", m.kind, m.man as char, m.uci())
}

/// Random nested apply/undo walk (as a search would do), comparing snapshots on the way back.
fn nested(ctx: &mut Ctx, b: &Board, case: &str, depth: usize) {
    let mut bb = b.clone();
    let mut stack: Vec<(Move, moves::RawUndo, Full)> = Vec::new();
    let mut path = String::new();
    let mut steps = 0;
    while stack.len() < depth && steps < depth * 4 {
        steps += 1;
        // the board is valid here (we only descend from legal successors)
        let list = semilegal::gen_all(&bb);
        if list.is_empty() {
            break;
        }
        let mv = list[ctx.rng.below(list.len())];
        let snap = full(&bb);
        let u = unsafe { moves::make_move_unchecked(&mut bb, mv) };
        ctx.eval(1);
        if bb.is_opponent_king_attacked() {
            // transient illegal state: roll back immediately, as the contract demands
            unsafe { moves::unmake_move_unchecked(&mut bb, mv, u) };
            let after = full(&bb);
            if after != snap {
                ctx.violation("nested_undo_illegal", &format!("{}|path:{} {}", case, path, mv), &full_diff(&after, &snap));
                return;
            }
            ctx.feature("nested_illegal_rollbacks");
            continue;
        }
        path.push_str(&format!("{} ", mv));
        stack.push((mv, u, snap));
    }
    ctx.feature_max("max_nested_depth", stack.len() as u64);
    while let Some((mv, u, snap)) = stack.pop() {
        unsafe { moves::unmake_move_unchecked(&mut bb, mv, u) };
        let after = full(&bb);
        if after != snap {
            ctx.violation("nested_undo", &format!("{}|path:{}", case, path), &format!("undoing {} at depth {}: {}", mv, stack.len() + 1, full_diff(&after, &snap)));
            return;
        }
    }
}

pub fn check_pos(ctx: &mut Ctx, mp: &MPos, b: &Board) {
    let case = format!("pos:{}", mfen::to_xfen(mp));
    let pseudo = mp.pseudo_moves();
    let snap = full(b);
    let mut bb = b.clone();
    let mut illegal = 0;
    for m in &pseudo {
        let Some(lm) = to_move(m) else { continue };
        if !lm.is_semilegal(b) {
            ctx.feature("pseudo_not_semilegal_skipped");
            continue;
        }
        let mcase = format!("{}|{}", case, mv_str(m));
        ctx.eval(1);
        let ok = ctx.guard("make_unmake", &mcase, || unsafe {
            let u = moves::make_move_unchecked(&mut bb, lm);
            let attacked = bb.is_opponent_king_attacked();
            moves::unmake_move_unchecked(&mut bb, lm, u);
            attacked
        });
        match ok {
            None => bb = b.clone(),
            Some(attacked) => {
                if attacked {
                    illegal += 1;
                }
                let after = full(&bb);
                if after != snap {
                    ctx.violation("flat_undo", &mcase, &full_diff(&after, &snap));
                    bb = b.clone();
                }
                // refused application through the safe wrapper must leave the board untouched
                if attacked {
                    if let Some(r) = ctx.guard("make_raw_refused", &mcase, || lm.make_raw(&mut bb)) {
                        if r.is_ok() {
                            // acceptance is C02's business; restore and go on
                            bb = b.clone();
                        } else if full(&bb) != snap {
                            ctx.violation("refused_make_raw_changed_board", &mcase, &full_diff(&full(&bb), &snap));
                            bb = b.clone();
                        }
                    } else {
                        bb = b.clone();
                    }
                    ctx.eval(1);
                    let text = m.uci();
                    if let Some(r) = ctx.guard("uci_make_raw_refused", &mcase, || make::Uci(text.as_str()).make_raw(&mut bb)) {
                        if r.is_err() && full(&bb) != snap {
                            ctx.violation("refused_uci_make_raw_changed_board", &mcase, &full_diff(&full(&bb), &snap));
                        }
                        if full(&bb) != snap {
                            bb = b.clone();
                        }
                    } else {
                        bb = b.clone();
                    }
                } else {
                    // accepted through make_raw, then undone with the returned pair
                    if let Some(Ok((mv2, u))) = ctx.guard("make_raw_accepted", &mcase, || lm.make_raw(&mut bb)) {
                        unsafe { moves::unmake_move_unchecked(&mut bb, mv2, u) };
                        ctx.eval(1);
                        if full(&bb) != snap {
                            ctx.violation("make_raw_undo", &mcase, &full_diff(&full(&bb), &snap));
                            bb = b.clone();
                        }
                    } else {
                        bb = b.clone();
                    }
                }
            }
        }
    }
    // null move (only when not in check, as the safety contract requires)
    if !mp.in_check() {
        ctx.eval(1);
        let r = ctx.guard("null_make_unmake", &case, || unsafe {
            let u = moves::make_move_unchecked(&mut bb, Move::NULL);
            let mid = crate::conv::from_raw(bb.raw());
            moves::unmake_move_unchecked(&mut bb, Move::NULL, u);
            mid
        });
        match r {
            None => bb = b.clone(),
            Some(mid) => {
                ctx.feature("null_moves");
                if full(&bb) != snap {
                    ctx.violation("null_undo", &case, &full_diff(&full(&bb), &snap));
                    bb = b.clone();
                }
                let want = mp.apply_null();
                if mid.sq != want.sq || mid.white_to_move != want.white_to_move || mid.castle != want.castle {
                    ctx.violation("null_move_effect", &case, "null move changed squares, rights or did not flip the side");
                }
            }
        }
    }
    // nested sequences
    let depth = 2 + ctx.rng.below(7);
    let r = crate::ctx::catch(|| nested(ctx, b, &case, depth));
    if let Err(msg) = r {
        ctx.violation(&format!("panic:nested:{}", crate::ctx::panic_site(&msg)), &case, &msg);
    }
    if illegal > 0 || pseudo.iter().any(|m| m.kind != MKind::Simple) {
        ctx.nontrivial(&mp.full_key());
    }
    if illegal > 0 {
        ctx.feature("pos_with_illegal_semilegal_undone");
    }
    for m in &pseudo {
        if m.kind != MKind::Simple {
            ctx.feature(&format!("undo_{:?}", m.kind));
        }
    }
    if mp.fullmove == 65535 || mp.halfmove == 65535 {
        ctx.feature("undo_at_counter_limit");
    }
}

pub fn run(ctx: &mut Ctx) {
    let n = ctx.budget(1_500_000, 20_000_000);
    let mut src = Sources::standard(n);
    src.three_man = n / 20;
    stream::run(ctx, &src, &mut check_pos);
}

pub fn replay(ctx: &mut Ctx, case: &str) -> bool {
    replay_pos(ctx, case.split('|').next().unwrap_or(case), &mut check_pos)
}
