//! C06 — semilegal generation, semilegal validation and well-formedness agree.

use super::*;
use crate::conv::{cell, coord, move_kind};
use crate::stream::Sources;
use owlchess::movegen::semilegal;
use owlchess::moves::{Move, MoveKind};
use owlchess::{Board, Cell, Coord};

fn mv_str(m: &MMove) -> String {
    format!("{:?}:{}:{}", m.kind, m.man as char, m.uci())
}

/// Exhaustive, position independent: Move::new / is_well_formed against the geometric predicate.
fn wellformed_sweep(ctx: &mut Ctx) {
    let mut n = 0u64;
    let mut accepted = 0u64;
    let light = ctx.light();
    for from in 0..64u8 {
        if !ctx.mine(from as u64) {
            continue;
        }
        for k in MKind::ALL {
            for m in std::iter::once(EMPTY).chain(MEN.iter().copied()) {
                // under Miri a strided sample of the destinations
                for to in (0..64u8).filter(|t| !light || (t + from) % 8 == 0) {
                    n += 1;
                    let want = well_formed(k, m, from, to);
                    let case = format!("tuple:{:?}:{}:{}{}", k, m as char, sq_name(from), sq_name(to));
                    let got = ctx.guard("move_new", &case, || Move::new(move_kind(k), cell(m), coord(from), coord(to)));
                    let Some(got) = got else { continue };
                    if got.is_ok() {
                        accepted += 1;
                    }
                    if got.is_ok() != want {
                        ctx.violation("move_new_vs_geometry", &case, &format!("Move::new ok={} geometry says {}", got.is_ok(), want));
                    }
                    if let Ok(mv) = got {
                        if mv.kind() != move_kind(k) || mv.src_cell() != cell(m) || mv.src() != coord(from) || mv.dst() != coord(to) || !mv.is_well_formed() {
                            ctx.violation("move_new_fields", &case, "constructed move does not carry its tuple");
                        }
                    }
                }
            }
        }
        // null kind: only the canonical null move
        for m in std::iter::once(EMPTY).chain(MEN.iter().copied()) {
            for to in 0..64u8 {
                n += 1;
                let case = format!("tuple:Null:{}:{}{}", m as char, sq_name(from), sq_name(to));
                let canonical = m == EMPTY && coord(from) == Coord::from_index(0) && coord(to) == Coord::from_index(0);
                if let Some(got) = ctx.guard("move_new", &case, || Move::new(MoveKind::Null, cell(m), coord(from), coord(to))) {
                    if got.is_ok() != canonical {
                        ctx.violation("move_new_null", &case, &format!("Move::new(Null..) ok={} canonical={}", got.is_ok(), canonical));
                    }
                    if let Ok(mv) = got {
                        if mv != Move::NULL {
                            ctx.violation("move_new_null", &case, "accepted null tuple is not Move::NULL");
                        }
                    }
                }
            }
        }
    }
    if ctx.shard == 0 {
        // small tables used by construction and validation
        use owlchess::{CastlingSide, Color, Piece};
        for (col, w) in [(Color::White, true), (Color::Black, false)] {
            for (side, k, tf) in [(CastlingSide::King, MKind::CastleK, 6u8), (CastlingSide::Queen, MKind::CastleQ, 2u8)] {
                let r = if w { 0 } else { 7 };
                let want = Move::new(move_kind(k), cell(man(w, b'K')), coord(sq(4, r)), coord(sq(tf, r)));
                if want != Ok(Move::from_castling(col, side)) || !Move::from_castling(col, side).is_well_formed() {
                    ctx.violation("from_castling", &format!("tuple:{:?}:{}", k, if w { 'K' } else { 'k' }), "Move::from_castling is not the well-formed castling tuple");
                }
            }
        }
        let pieces = [(Piece::Pawn, b'P'), (Piece::King, b'K'), (Piece::Knight, b'N'), (Piece::Bishop, b'B'), (Piece::Rook, b'R'), (Piece::Queen, b'Q')];
        for k in MKind::ALL {
            let lk = move_kind(k);
            let want_promo = k.promo_letter();
            let got_promo = lk.promote().map(|p| pieces.iter().find(|x| x.0 == p).unwrap().1);
            if got_promo != want_promo {
                ctx.violation("movekind_promote", &format!("tuple:{:?}:-", k), "MoveKind::promote");
            }
            for (p, l) in pieces {
                let want = match k {
                    MKind::Simple => true,
                    MKind::CastleK | MKind::CastleQ => l == b'K',
                    _ => l == b'P',
                };
                if lk.matches_piece(p) != want {
                    ctx.violation("movekind_matches_piece", &format!("tuple:{:?}:{}", k, l as char), "MoveKind::matches_piece");
                }
            }
        }
        if MoveKind::Null.matches_piece(Piece::King) || MoveKind::Null.promote().is_some() {
            ctx.violation("movekind_matches_piece", "tuple:Null:K", "null kind matches a piece");
        }
    }
    ctx.eval(n);
    ctx.feature_n("wellformed_tuples_checked", n);
    ctx.feature_n("wellformed_tuples_accepted", accepted);
    if ctx.shard == 0 && !light {
        ctx.exhaustive_parts.push("Move::new / is_well_formed on all 10 kinds x 13 cells x 64 x 64 tuples (split over shards by source square)".into());
    }
}

pub fn check_pos(ctx: &mut Ctx, mp: &MPos, b: &Board) {
    let case = format!("pos:{}", mfen::to_xfen(mp));
    let pseudo = sorted(mp.pseudo_moves());

    type Gen = fn(&Board) -> owlchess::MoveList;
    let gens: [(&str, Gen); 5] = [
        ("gen_all", semilegal::gen_all),
        ("gen_capture", semilegal::gen_capture),
        ("gen_simple", semilegal::gen_simple),
        ("gen_simple_no_promote", semilegal::gen_simple_no_promote),
        ("gen_simple_promote", semilegal::gen_simple_promote),
    ];
    let mut lists: Vec<Option<Vec<MMove>>> = Vec::new();
    for (name, g) in gens {
        let l = ctx.guard(name, &case, || g(b));
        ctx.eval(1);
        match l {
            None => lists.push(None),
            Some(l) => {
                for m in l.iter() {
                    if !m.is_well_formed() {
                        ctx.violation("generated_not_well_formed", &case, &crate::conv::move_desc(m));
                    }
                    if m.src_cell() != b.get(m.src()) {
                        ctx.violation("generated_wrong_src_cell", &case, &crate::conv::move_desc(m));
                    }
                }
                match lib_moves(&l) {
                    None => {
                        ctx.violation("generated_null", &case, name);
                        lists.push(None)
                    }
                    Some(v) => lists.push(Some(v)),
                }
            }
        }
    }
    let is_cap = |m: &MMove| mp.is_capture(m);
    let wants: [Vec<MMove>; 5] = [
        pseudo.clone(),
        pseudo.iter().copied().filter(|m| is_cap(m)).collect(),
        pseudo.iter().copied().filter(|m| !is_cap(m)).collect(),
        pseudo.iter().copied().filter(|m| !is_cap(m) && !m.kind.is_promo()).collect(),
        pseudo.iter().copied().filter(|m| !is_cap(m) && m.kind.is_promo()).collect(),
    ];
    for i in 0..5 {
        if let Some(got) = &lists[i] {
            if let Some(d) = diff_moves(got, &wants[i]) {
                ctx.violation(&format!("semilegal_{}", gens[i].0), &case, &d);
            }
        }
    }
    // the *_into entry points fill caller-provided sinks with exactly the same moves
    {
        let mut v: Vec<Move> = Vec::new();
        let mut ml = owlchess::MoveList::new();
        let r = ctx.guard("gen_into", &case, || {
            semilegal::gen_all_into(b, &mut v);
            semilegal::gen_capture_into(b, &mut ml);
            semilegal::gen_simple_into(b, &mut ml);
            let mut np: Vec<Move> = Vec::new();
            semilegal::gen_simple_no_promote_into(b, &mut np);
            semilegal::gen_simple_promote_into(b, &mut np);
            np
        });
        ctx.eval(1);
        if let (Some(np), Some(all), Some(simple)) = (r, &lists[0], &lists[2]) {
            match (lib_moves(&v), lib_moves(&ml), lib_moves(&np)) {
                (Some(a), Some(c), Some(n)) => {
                    if let Some(d) = diff_moves(&a, all) {
                        ctx.violation("gen_all_into_differs_from_gen_all", &case, &d);
                    }
                    if let Some(d) = diff_moves(&c, all) {
                        ctx.violation("capture_into_plus_simple_into_differs_from_gen_all", &case, &d);
                    }
                    if let Some(d) = diff_moves(&n, simple) {
                        ctx.violation("nopromote_into_plus_promote_into_differs_from_gen_simple", &case, &d);
                    }
                }
                _ => ctx.violation("generated_null", &case, "*_into"),
            }
        }
    }
    // partitions as multiset sums (holds or fails independently of the model)
    if let (Some(all), Some(cap), Some(simple), Some(np), Some(pr)) = (&lists[0], &lists[1], &lists[2], &lists[3], &lists[4]) {
        let mut u = cap.clone();
        u.extend_from_slice(simple);
        u.sort();
        if let Some(d) = diff_moves(&u, all) {
            ctx.violation("partition_all_ne_capture_plus_simple", &case, &d);
        }
        let mut u = np.clone();
        u.extend_from_slice(pr);
        u.sort();
        if let Some(d) = diff_moves(&u, simple) {
            ctx.violation("partition_simple_ne_nopromote_plus_promote", &case, &d);
        }
    }

    // validator on tuples: every kind x every destination from every own man ...
    let w = mp.white_to_move;
    let mut accepted: Vec<MMove> = Vec::new();
    let mut n = 0u64;
    for from in 0..64u8 {
        let m = mp.at(from);
        if m == EMPTY || is_white(m) != w {
            continue;
        }
        for k in MKind::ALL {
            for to in 0..64u8 {
                if let Ok(lm) = Move::new(move_kind(k), cell(m), coord(from), coord(to)) {
                    n += 1;
                    if lm.is_semilegal(b) {
                        accepted.push(MMove { kind: k, man: m, from, to });
                    }
                }
            }
        }
    }
    ctx.eval(n);
    accepted.sort();
    if let Some(d) = diff_moves(&accepted, &pseudo) {
        ctx.violation("validator_own_men_tuples", &case, &d);
    }
    // ... and on a sample of positions every well-formed tuple of BOTH colours and ALL men
    let sweeps_done = ctx.features.get("full_tuple_sweeps").copied().unwrap_or(0);
    if (ctx.cases % 4 == 1 && (ctx.config != "miri" || ctx.cases == 1) && sweeps_done < 25_000) || ctx.is_replay {
        let mut acc: Vec<MMove> = Vec::new();
        let mut n = 0u64;
        for k in MKind::ALL {
            for m in MEN {
                for from in 0..64u8 {
                    for to in 0..64u8 {
                        if let Ok(lm) = Move::new(move_kind(k), cell(m), coord(from), coord(to)) {
                            n += 1;
                            if lm.is_semilegal(b) {
                                acc.push(MMove { kind: k, man: m, from, to });
                            }
                        }
                    }
                }
            }
        }
        ctx.eval(n);
        ctx.feature("full_tuple_sweeps");
        acc.sort();
        if let Some(d) = diff_moves(&acc, &pseudo) {
            ctx.violation("validator_all_tuples", &case, &d);
        }
        // semi_validate agrees with is_semilegal; the null move is never semilegal
        if Move::NULL.is_semilegal(b) || Move::NULL.semi_validate(b).is_ok() {
            ctx.violation("null_is_semilegal", &case, "Move::NULL reported semilegal");
        }
    }

    if pseudo.iter().any(|m| m.kind != MKind::Simple) || mp.in_check() {
        ctx.nontrivial(&mp.rep_key());
    }
    for m in &pseudo {
        match m.kind {
            MKind::CastleK | MKind::CastleQ => {
                ctx.feature("pseudo_castle");
                let n = mp.apply(m);
                if n.is_attacked(m.to, !w) {
                    ctx.feature("pseudo_castle_into_attack");
                }
            }
            MKind::EnPassant => ctx.feature("pseudo_ep"),
            MKind::Double => ctx.feature("pseudo_double"),
            MKind::PromoQ => ctx.feature("pseudo_promo"),
            _ => {}
        }
    }
    if (mp.castle[0] || mp.castle[1]) && w || (mp.castle[2] || mp.castle[3]) && !w {
        if !pseudo.iter().any(|m| matches!(m.kind, MKind::CastleK | MKind::CastleQ)) {
            ctx.feature("castle_right_but_unavailable");
        }
    }
    let _ = Cell::EMPTY;
}

pub fn run(ctx: &mut Ctx) {
    wellformed_sweep(ctx);
    let n = ctx.budget(240_000, 3_000_000);
    let mut src = Sources::standard(n);
    src.three_man = if ctx.tier == crate::ctx::Tier::Thorough && ctx.config != "miri" { u64::MAX } else { n / 10 };
    stream::run(ctx, &src, &mut check_pos);
}

pub fn replay(ctx: &mut Ctx, case: &str) -> bool {
    if case.starts_with("tuple:") {
        // tuple cases are position independent; re-run the whole exhaustive sweep
        ctx.nshards = 1;
        ctx.shard = 0;
        wellformed_sweep(ctx);
        return true;
    }
    replay_pos(ctx, case.split('|').next().unwrap_or(case), &mut check_pos)
}
