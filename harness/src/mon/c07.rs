//! C07 — the outcome of a position is classified exactly.

use super::*;
use crate::stream::Sources;
use owlchess::{Board, Color, DrawReason, Outcome, WinReason};

pub fn lib_outcome(o: Option<Outcome>) -> Result<Option<MOutcome>, String> {
    Ok(match o {
        None => None,
        Some(Outcome::Win { side, reason: WinReason::Checkmate }) => Some(MOutcome::Checkmate(side == Color::White)),
        Some(Outcome::Draw(DrawReason::Stalemate)) => Some(MOutcome::Stalemate),
        Some(Outcome::Draw(DrawReason::InsufficientMaterial)) => Some(MOutcome::Insufficient),
        Some(Outcome::Draw(DrawReason::Moves75)) => Some(MOutcome::Moves75),
        Some(Outcome::Draw(DrawReason::Moves50)) => Some(MOutcome::Moves50),
        Some(other) => return Err(format!("{:?}", other)),
    })
}

pub fn check_pos(ctx: &mut Ctx, mp: &MPos, b: &Board) {
    let case = format!("pos:{}", mfen::to_xfen(mp));
    let legal = mp.legal_moves();
    // classes of applicable outcomes: forced > mandatory > claimable; within a class any
    // applicable reason is acceptable (the property fixes precedence between classes only)
    let forced: Option<MOutcome> = if legal.is_empty() { Some(if mp.in_check() { MOutcome::Checkmate(!mp.white_to_move) } else { MOutcome::Stalemate }) } else { None };
    let mut mandatory: Vec<MOutcome> = Vec::new();
    if mp.insufficient_material() {
        mandatory.push(MOutcome::Insufficient);
    }
    if mp.halfmove >= 150 {
        mandatory.push(MOutcome::Moves75);
    }
    let claimable: Vec<MOutcome> = if mp.halfmove >= 100 { vec![MOutcome::Moves50] } else { vec![] };
    let ok_draw = |g: &Option<MOutcome>| -> bool {
        if !mandatory.is_empty() {
            matches!(g, Some(x) if mandatory.contains(x))
        } else if !claimable.is_empty() {
            matches!(g, Some(x) if claimable.contains(x))
        } else {
            g.is_none()
        }
    };
    let want = mp.outcome();
    ctx.eval(4);
    if let Some(o) = ctx.guard("calc_outcome", &case, || b.calc_outcome()) {
        match lib_outcome(o) {
            Ok(got) => {
                let ok = match &forced {
                    Some(f) => got.as_ref() == Some(f),
                    None => ok_draw(&got),
                };
                if !ok {
                    ctx.violation("calc_outcome", &case, &format!("library {:?}; forced {:?} mandatory {:?} claimable {:?}", got, forced, mandatory, claimable));
                }
            }
            Err(e) => ctx.violation("calc_outcome_reason", &case, &format!("reason {} can never apply to a bare position; rules say {:?}", e, want)),
        }
    }
    if let Some(h) = ctx.guard("has_legal_moves", &case, || b.has_legal_moves()) {
        if h != !legal.is_empty() {
            ctx.violation("has_legal_moves", &case, &format!("library {} but the legal set has {} moves", h, legal.len()));
        }
    }
    if let Some(d) = ctx.guard("calc_draw_simple", &case, || b.calc_draw_simple()) {
        match lib_outcome(d.map(Outcome::Draw)) {
            Ok(g) if ok_draw(&g) => {}
            other => ctx.violation("calc_draw_simple", &case, &format!("library {:?}; mandatory {:?} claimable {:?}", other, mandatory, claimable)),
        }
    }
    if let Some(c) = ctx.guard("is_check", &case, || b.is_check()) {
        if c != mp.in_check() {
            ctx.violation("is_check", &case, &format!("library {} rules {}", c, mp.in_check()));
        }
    }
    // coverage
    let pseudo_n = mp.pseudo_moves().len();
    match want {
        Some(MOutcome::Checkmate(_)) => ctx.feature("checkmate"),
        Some(MOutcome::Stalemate) => {
            ctx.feature("stalemate");
            if pseudo_n > 0 {
                ctx.feature("stalemate_with_pseudo_moves");
            }
        }
        Some(MOutcome::Insufficient) => ctx.feature("insufficient"),
        Some(MOutcome::Moves75) => ctx.feature("moves75"),
        Some(MOutcome::Moves50) => ctx.feature("moves50"),
        None => ctx.feature("no_outcome"),
    }
    if legal.is_empty() && (mp.insufficient_material() || mp.halfmove >= 100) {
        ctx.feature("forced_with_draw_reason_also_applying");
    }
    if mp.insufficient_material() && mp.halfmove >= 100 {
        ctx.feature("insufficient_and_clock");
    }
    let others = mp.sq.iter().filter(|&&p| p != EMPTY && kind(p) != b'K').count();
    if others <= 3 {
        ctx.feature(&format!("men_besides_kings_{}", others));
    }
    if matches!(mp.halfmove, 99 | 100 | 149 | 150) {
        ctx.feature(&format!("clock_{}", mp.halfmove));
    }
    if !legal.is_empty() {
        // positions whose legal moves all belong to one class (the short-circuit probe has one code
        // path per class)
        let class = |m: &MMove| -> &'static str {
            match m.kind {
                MKind::Double => "double_push",
                MKind::EnPassant => "en_passant",
                MKind::CastleK | MKind::CastleQ => "castling",
                MKind::PromoN | MKind::PromoB | MKind::PromoR | MKind::PromoQ => "promotion",
                MKind::Simple => match kind(m.man) {
                    b'P' => if mp.is_capture(m) { "pawn_capture" } else { "pawn_push" },
                    b'K' => "king",
                    b'N' => "knight",
                    b'B' => "bishop",
                    b'R' => "rook",
                    _ => "queen",
                },
            }
        };
        let c0 = class(&legal[0]);
        if legal.iter().all(|m| class(m) == c0) {
            ctx.feature(&format!("all_legal_moves_are_{}", c0));
        }
    }
    if legal.len() == 1 && legal[0].kind == MKind::EnPassant {
        ctx.feature("only_move_is_en_passant");
    }
    if pseudo_n > 0 && legal.is_empty() && mp.pseudo_moves().iter().any(|m| m.kind == MKind::EnPassant) {
        ctx.feature("no_legal_move_but_pseudo_en_passant");
        if !mp.in_check() {
            ctx.feature("stalemate_with_pseudo_legal_en_passant");
        }
    }
    if want.is_some() || others <= 3 || mp.halfmove >= 99 {
        ctx.nontrivial(&mp.full_key());
    }
}

pub fn run(ctx: &mut Ctx) {
    let n = ctx.budget(2_000_000, 25_000_000);
    let mut src = Sources::standard(n);
    src.three_man = if ctx.tier == crate::ctx::Tier::Thorough && ctx.config != "miri" { u64::MAX } else { n / 3 };
    stream::run(ctx, &src, &mut check_pos);
    // material x clock grid: few-men positions at every clock threshold
    let extra = ctx.budget(400_000, 5_000_000);
    for _ in 0..extra {
        let mut p = crate::gen::fam_material(&mut ctx.rng);
        p.halfmove = *ctx.rng.pick(&[0u16, 98, 99, 100, 101, 148, 149, 150, 151, 65535]);
        stream::offer(ctx, &p, "material_clock_grid", &mut check_pos);
    }
}

pub fn replay(ctx: &mut Ctx, case: &str) -> bool {
    replay_pos(ctx, case.split('|').next().unwrap_or(case), &mut check_pos)
}
