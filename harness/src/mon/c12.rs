//! C12 — every text parser is total: malformed input gives an error, never a panic; returned
//! values format to text that parses back to the same value.

use super::*;
use crate::ctx::{hex, preview, unhex};
use crate::gentext::{self, SYMBOLS};
use owlchess::chain::MoveChain;
use owlchess::moves::{make, san, uci, Make, Move};
use owlchess::{Board, CastlingRights, Cell, Color, Coord, RawBoard};
use std::str::FromStr;

const POS_FENS: &[&str] = &[
    "rnbqkbnr/pppppppp/8/8/8/8/PPPPPPPP/RNBQKBNR w KQkq - 0 1",
    "rnbqkbnr/pppp1ppp/8/4p3/4P3/8/PPPP1PPP/RNBQKBNR b KQkq - 0 2",
    "r3k2r/p1ppqpb1/bn2pnp1/3PN3/1p2P3/2N2Q1p/PPPBBPPP/R3K2R w KQkq - 0 1",
    "r3k2r/p1ppqpb1/bn2pnp1/3PN3/1p2P3/2N2Q1p/PPPBBPPP/R3K2R b KQkq - 0 1",
    "8/8/8/2PpP3/8/8/5k1K/8 w - d6 0 1",
    "8/8/8/8/2PpP3/8/5k2/7K b - c3 0 1",
    "n1n5/PPPk4/8/8/8/8/4Kppp/5N1N b - - 0 1",
    "n1n5/PPPk4/8/8/8/8/4Kppp/5N1N w - - 0 1",
    "4k3/6K1/8/N1N5/8/8/8/N1N5 w - - 0 1",
    "k5K1/8/5q2/6n1/8/2P5/5q2/8 b - - 0 1",
    "7k/5Q2/6K1/8/8/8/8/8 b - - 0 1",
    "8/8/1p6/2P5/1p5k/2P5/7K/8 w - - 0 1",
    "r3k2r/8/8/8/8/8/8/R3K2R w KQkq - 0 1",
    "r3k2r/8/8/8/8/8/8/R3K2R b KQkq - 0 1",
    "4k3/8/8/8/8/8/8/4K3 w - - 0 1",
    "4k3/8/8/8/8/8/8/4K3 b - - 149 65535",
    "8/8/8/K2Pp2r/8/8/8/7k w - e6 0 1",
    "7K/8/8/8/k2pP2R/8/8/8 b - e3 0 1",
    "R6R/3Q4/1Q4Q1/4Q3/2Q4Q/Q4Q2/pp1Q4/kBNN1KB1 w - - 0 1",
    "rnb1kbnr/pppp1ppp/8/4p3/6Pq/5P2/PPPPP2P/RNBQKBNR w KQkq - 1 3",
    "1K2k2r/8/8/8/8/8/8/8 b k - 0 1",
    "8/P6k/8/8/8/8/8/K7 w - - 0 1",
    "8/8/8/8/8/8/p6K/k7 b - - 0 1",
    "2kr3r/pp1n1ppp/2p1bn2/q3p1B1/1b2P3/2NB1N2/PPPQ1PPP/2KR3R w - - 8 11",
    "4k3/8/8/8/Pp6/8/8/4K3 b - a3 0 1",
    "4k3/8/8/pP6/8/8/8/4K3 w - a6 0 1",
    "4k3/8/8/8/6pP/8/8/4K3 b - h3 0 1",
    "4k3/8/8/6Pp/8/8/8/4K3 w - h6 0 1",
    "rnbqkbnr/1ppppppp/8/8/pP6/8/P1PPPPPP/RNBQKBNR b KQkq b3 0 2",
    "k7/8/8/8/8/8/1B3B2/7K w - - 0 1",
    "k7/8/8/8/8/8/1b3b2/7K b - - 0 1",
    "4k3/8/8/8/8/8/P6P/4K3 w - - 0 1",
];

pub struct Env {
    boards: Vec<Board>,
}

impl Env {
    pub fn new() -> Env {
        let mut boards = Vec::new();
        for f in POS_FENS {
            let p = mfen::from_fen(f).expect("harness: bad C12 position");
            boards.push(crate::conv::to_board(&p).expect("harness: invalid C12 position"));
        }
        Env { boards }
    }
}

fn vio(ctx: &mut Ctx, entry: &str, text: &str, what: &str) {
    let case = format!("text:{}:{}", entry, hex(text.as_bytes()));
    ctx.violation(&format!("roundtrip:{}", entry), &case, &format!("{:?}: {}", preview(text), what));
}

/// Calls `f` under catch_unwind; a panic is a violation whose signature is (entry point, site).
fn total<T>(ctx: &mut Ctx, entry: &str, text: &str, f: impl FnOnce() -> T) -> Option<T> {
    ctx.eval(1);
    match crate::ctx::catch(f) {
        Ok(v) => Some(v),
        Err(msg) => {
            let site = crate::ctx::panic_site(&msg);
            let case = format!("text:{}:{}", entry, hex(text.as_bytes()));
            ctx.violation(&format!("panic:{}:{}", entry, site), &case, &format!("{:?} -> {}", preview(text), msg));
            ctx.feature("panics_caught");
            None
        }
    }
}

/// The position-independent entry points.
pub fn check_free(ctx: &mut Ctx, t: &str, which: u32) {
    if which & 1 != 0 {
        if let Some(Ok(r)) = total(ctx, "RawBoard::from_fen", t, || RawBoard::from_fen(t)) {
            ctx.feature("accepted_fen");
            let s = r.as_fen();
            if RawBoard::from_fen(&s) != Ok(r) {
                vio(ctx, "RawBoard::from_fen", t, &format!("formats as {:?} which does not parse back to the same board", s));
            }
        }
        let _ = total(ctx, "MoveChain::from_fen", t, || MoveChain::from_fen(t).is_ok());
        if let Some(Ok(b)) = total(ctx, "Board::from_fen", t, || Board::from_fen(t)) {
            let s = b.as_fen();
            match Board::from_fen(&s) {
                Ok(b2) if b2.raw() == b.raw() => {}
                _ => vio(ctx, "Board::from_fen", t, &format!("formats as {:?} which does not parse back to the same board", s)),
            }
        }
    }
    if which & 2 != 0 {
        if let Some(Ok(m)) = total(ctx, "uci::Move::from_str", t, || uci::Move::from_str(t)) {
            ctx.feature("accepted_uci");
            let s = m.to_string();
            if uci::Move::from_str(&s) != Ok(m) {
                vio(ctx, "uci::Move::from_str", t, &format!("formats as {:?} which does not parse back", s));
            }
        }
    }
    if which & 4 != 0 {
        if let Some(Ok(m)) = total(ctx, "san::Move::from_str", t, || san::Move::from_str(t)) {
            ctx.feature("accepted_san");
            let pawn_simple = matches!(m.data, san::Data::Simple { piece: owlchess::Piece::Pawn, .. });
            if !pawn_simple {
                if let Some(s) = total(ctx, "san::Move::to_string", t, || m.to_string()) {
                    match total(ctx, "san::Move::from_str", &s, || san::Move::from_str(&s)) {
                        Some(Ok(m2)) if m2 == m => {}
                        Some(other) => vio(ctx, "san::Move::from_str", t, &format!("value {:?} formats as {:?} which parses as {:?}", m, s, other)),
                        None => {}
                    }
                }
            }
        }
        let _ = total(ctx, "san::Data::from_str", t, || san::Data::from_str(t));
    }
    if which & 8 != 0 {
        if let Some(Ok(c)) = total(ctx, "Coord::from_str", t, || Coord::from_str(t)) {
            ctx.feature("accepted_coord");
            if Coord::from_str(&c.to_string()) != Ok(c) {
                vio(ctx, "Coord::from_str", t, "does not round-trip");
            }
        }
        if let Some(Ok(c)) = total(ctx, "Cell::from_str", t, || Cell::from_str(t)) {
            ctx.feature("accepted_cell");
            if Cell::from_str(&c.to_string()) != Ok(c) {
                vio(ctx, "Cell::from_str", t, "does not round-trip");
            }
        }
        if let Some(Ok(c)) = total(ctx, "Color::from_str", t, || Color::from_str(t)) {
            ctx.feature("accepted_color");
            if Color::from_str(&c.to_string()) != Ok(c) {
                vio(ctx, "Color::from_str", t, "does not round-trip");
            }
        }
        if let Some(Ok(c)) = total(ctx, "CastlingRights::from_str", t, || CastlingRights::from_str(t)) {
            ctx.feature("accepted_castling");
            if CastlingRights::from_str(&c.to_string()) != Ok(c) {
                vio(ctx, "CastlingRights::from_str", t, "does not round-trip");
            }
        }
    }
}

/// The position-dependent entry points, in position `b`.
pub fn check_in_pos(ctx: &mut Ctx, t: &str, b: &Board, which: u32) {
    if which & 2 != 0 {
        if let Some(Ok(m)) = total(ctx, "Move::from_uci", t, || Move::from_uci(t, b)) {
            // formatting the move gives UCI text that reads back as the same move
            if m != Move::NULL {
                let s = m.to_string();
                if Move::from_uci(&s, b) != Ok(m) {
                    vio(ctx, "Move::from_uci", t, &format!("move formats as {:?} which does not read back in {}", s, b.as_fen()));
                }
            }
        }
        let _ = total(ctx, "Move::from_uci_semilegal", t, || Move::from_uci_semilegal(t, b));
        let _ = total(ctx, "Move::from_uci_legal", t, || Move::from_uci_legal(t, b));
        let _ = total(ctx, "make::Uci", t, || make::Uci(t).make(b).is_ok());
    }
    if which & 4 != 0 {
        if let Some(Ok(m)) = total(ctx, "Move::from_san", t, || Move::from_san(t, b)) {
            ctx.feature("accepted_san_in_position");
            let s = m.to_string();
            if Move::from_uci(&s, b) != Ok(m) {
                vio(ctx, "Move::from_san", t, &format!("move formats as {:?} which does not read back in {}", s, b.as_fen()));
            }
            // ... and its SAN form reads back as the same move
            if let Some(Ok(sm)) = total(ctx, "Move::san", t, || m.san(b)) {
                let st = sm.to_string();
                if Move::from_san(&st, b) != Ok(m) {
                    vio(ctx, "Move::from_san", t, &format!("move formats as SAN {:?} which does not read back in {}", st, b.as_fen()));
                }
            }
        }
        let _ = total(ctx, "make::San", t, || make::San(t).make(b).is_ok());
    }
    if which & 16 != 0 {
        if let Some(Ok(ch)) = total(ctx, "MoveChain::from_uci_list", t, || MoveChain::from_uci_list(b.clone(), t)) {
            if ch.len() > 0 {
                ctx.feature("accepted_uci_list");
            }
            let s = ch.uci().to_string();
            match MoveChain::from_uci_list(b.clone(), &s) {
                Ok(ch2) if ch2 == ch => {}
                _ => vio(ctx, "MoveChain::from_uci_list", t, &format!("chain formats as {:?} which does not rebuild it", s)),
            }
        }
        let _ = total(ctx, "MoveChain::push_uci_list", t, || {
            let mut ch = MoveChain::new(b.clone());
            let r = ch.push_uci_list(t);
            (r.is_ok(), ch.len())
        });
    }
}

pub fn check_text(ctx: &mut Ctx, env: &Env, t: &str, which: u32, positions: usize) {
    check_free(ctx, t, which);
    if which & (2 | 4 | 16) != 0 {
        // `positions` boards, starting at a text-dependent offset so that every board gets its share
        let n = env.boards.len();
        let start = if positions >= n { 0 } else { (crate::rng::fingerprint(t.as_bytes()) % n as u64) as usize };
        for k in 0..positions.min(n) {
            check_in_pos(ctx, t, &env.boards[(start + k) % n], which);
        }
    }
}

const ALL: u32 = 1 | 2 | 4 | 8 | 16;

pub fn run(ctx: &mut Ctx) {
    let env = Env::new();
    let miri = ctx.config == "miri";
    let npos = if miri { 2 } else { POS_FENS.len() };

    // 1. exhaustive: every string of <= 3 symbols over the 45-symbol set, every entry point
    let maxlen = if miri { 1 } else { 3 };
    let mut idx = 0u64;
    let mut n = 0u64;
    let mut buf: Vec<String> = Vec::new();
    gentext::enumerate(&SYMBOLS, maxlen, &mut |s| {
        idx += 1;
        if (idx % ctx.nshards as u64) as usize == ctx.shard {
            buf.push(s.to_string());
        }
    });
    for s in &buf {
        n += 1;
        if n <= 2 || n % 5000 == 0 {
            ctx.begin_case(&format!("text:*:{}", hex(s.as_bytes())));
            ctx.sample_note(&format!("short string {:?} through every entry point", preview(s)));
        }
        check_text(ctx, &env, s, ALL, npos);
        ctx.nontrivial(s.as_bytes());
    }
    ctx.feature_n("exhaustive_short_strings", n);
    if ctx.shard == 0 {
        ctx.exhaustive_parts.push(format!("all strings of <= {} symbols over a 45-symbol set (grammar ASCII, space, tab, NUL, 2/3/4-byte characters) through every entry point, position-dependent ones in {} positions", maxlen, npos));
    }

    // 2. exhaustive: strings of 4 and 5 symbols over a 14-symbol sub-alphabet per grammar
    if !miri {
        let uci_syms: [&str; 14] = ["a", "e", "h", "1", "2", "7", "8", "0", "q", "n", "x", "\u{e9}", "\u{20ac}", " "];
        let san_syms: [&str; 14] = ["a", "e", "d", "1", "5", "8", "N", "K", "Q", "x", "=", "+", "O", "\u{e9}"];
        for (syms, which, len_max, pos) in [(&uci_syms, 2u32 | 16, 5usize, 3usize), (&san_syms, 4u32, 5, 3)] {
            for len in 4..=len_max {
                let mut idx = 0u64;
                let mut buf: Vec<String> = Vec::new();
                let thin = if ctx.tier == crate::ctx::Tier::Quick && len == 5 { 4 } else { 1 };
                gentext::enumerate_exact(syms, len, &mut |s| {
                    idx += 1;
                    if (idx % ctx.nshards as u64) as usize == ctx.shard && (idx / ctx.nshards as u64) % thin == 0 {
                        buf.push(s.to_string());
                    }
                });
                for s in &buf {
                    check_text(ctx, &env, s, which, pos);
                }
                ctx.feature_n(&format!("len{}_strings", len), buf.len() as u64);
            }
        }
        if ctx.shard == 0 && ctx.tier == crate::ctx::Tier::Thorough {
            ctx.exhaustive_parts.push("all strings of 4 and 5 symbols over 14-symbol UCI and SAN sub-alphabets".into());
        }
    }

    // 2b. exhaustive over the SAN grammar's own shapes (position-dependent entry points):
    //     pawn captures and pushes with every promotion spelling, piece moves with every hint shape
    if !miri {
        let files = ["a", "b", "c", "d", "e", "f", "g", "h"];
        let ranks = ["1", "2", "3", "4", "5", "6", "7", "8"];
        let mut fam: Vec<String> = Vec::new();
        for f in files {
            for g in files {
                for r in ranks {
                    for pr in ["", "=Q", "N", "=K", "R+", "=B#"] {
                        fam.push(format!("{}x{}{}{}", f, g, r, pr));
                    }
                }
            }
            for r in ranks {
                for pr in ["=Q", "N", "=R", "B", "=K"] {
                    fam.push(format!("{}{}{}", f, r, pr));
                }
            }
        }
        for pc in ["N", "B", "R", "Q", "K"] {
            for hf in ["", "a", "e", "h"] {
                for hr in ["", "1", "4", "8"] {
                    for x in ["", "x"] {
                        for f in files {
                            for r in ranks {
                                fam.push(format!("{}{}{}{}{}{}", pc, hf, hr, x, f, r));
                            }
                        }
                    }
                }
            }
        }
        let thin = if ctx.tier == crate::ctx::Tier::Quick { 2 } else { 1 };
        let mut k = 0u64;
        for (i, t) in fam.iter().enumerate() {
            if !ctx.mine(i as u64) {
                continue;
            }
            k += 1;
            if k % thin != 0 {
                continue;
            }
            check_text(ctx, &env, t, 4, if ctx.tier == crate::ctx::Tier::Quick { 8 } else { npos });
            ctx.nontrivial(t.as_bytes());
        }
        ctx.feature_n("san_grammar_family_texts", k / thin);
    }

    // 3. valid texts, their truncations, multi-byte splices and mutations
    let mut valid_fen: Vec<String> = POS_FENS.iter().map(|s| s.to_string()).collect();
    valid_fen.extend(gentext::FEN_VARIANTS.iter().map(|s| s.to_string()));
    let mut valid_uci: Vec<String> = Vec::new();
    let mut valid_san: Vec<String> = Vec::new();
    for f in POS_FENS {
        let p = mfen::from_fen(f).unwrap();
        let legal = p.legal_moves();
        for m in legal.iter().take(40) {
            valid_uci.push(m.uci());
            valid_san.push(crate::msan::san(&p, &legal, m, false));
        }
    }
    valid_san.extend(["O-O", "O-O-O", "0-0", "0-0-0", "Nbd7", "R1a3", "Qh4xe1", "exd6", "e8=Q+", "e8Q#", "dc", "dc=N", "N", "K", "Qx", "R+", "B#", "Kx", "\u{20ac}", "N\u{20ac}", "a\u{e9}4", "e2e4", "0000", "e7e8q"].iter().map(|s| s.to_string()));
    valid_uci.extend(["0000", "e2e4", "e7e8q", "a\u{e9}4", "\u{e9}4a", "a1\u{e9}", "e2e4 e7e5", "e2e4\u{2003}e7e5", "e2e4\te7e5\n", "e2e4 e7e5 g1f3 b8c6 f1b5 a7a6", "e2e4 zzzz e7e5", "e2e4 e2e4"].iter().map(|s| s.to_string()));
    let simple: Vec<String> = ["a1", "h8", "e4", "w", "b", "K", "q", ".", "-", "KQkq", "Kq", "qK", "KK", ""].iter().map(|s| s.to_string()).collect();
    let groups: [(&Vec<String>, u32, &str); 4] = [(&valid_fen, 1, gentext::FEN_ALPHABET), (&valid_uci, 2 | 16, gentext::UCI_ALPHABET), (&valid_san, 4, gentext::SAN_ALPHABET), (&simple, 8, "abcdefgh12345678wbKQkq.-PNBR")];
    let mut item = 0u64;
    for (texts, which, _) in groups.iter() {
        for t in texts.iter() {
            item += 1;
            if !ctx.mine(item) {
                continue;
            }
            ctx.begin_case(&format!("text:*:{}", hex(t.as_bytes())));
            check_text(ctx, &env, t, *which | 8, npos.min(6));
            ctx.nontrivial(t.as_bytes());
            if miri && item % 7 != 0 {
                continue;
            }
            let mut derived: Vec<String> = Vec::new();
            gentext::truncations(t, &mut |s| derived.push(s.to_string()));
            if t.len() <= 24 {
                gentext::splice_multibyte(t, &mut |s| derived.push(s.to_string()));
            }
            for d in &derived {
                check_text(ctx, &env, d, *which | 8, 3);
                ctx.nontrivial(d.as_bytes());
            }
            ctx.feature_n("truncations_and_splices", derived.len() as u64);
        }
    }
    let muts = ctx.budget(3_000_000, 40_000_000);
    for i in 0..muts {
        if ctx.miri_full() {
            break;
        }
        let g = &groups[(i % 4) as usize];
        let base = ctx.rng.pick(g.0).clone();
        let t = gentext::mutate(&mut ctx.rng, &base, g.2);
        if i % 1000 == 0 {
            ctx.begin_case(&format!("text:*:{}", hex(t.as_bytes())));
            if i % 50_000 == 0 {
                ctx.sample_note(&format!("mutated text {:?} (from {:?})", preview(&t), preview(&base)));
            }
        }
        check_text(ctx, &env, &t, g.1, 3);
        ctx.nontrivial(t.as_bytes());
    }
    ctx.feature_n("mutated_texts", muts);

    // 4. random UTF-8 and long inputs
    let rnd = ctx.budget(1_000_000, 12_000_000);
    for i in 0..rnd {
        if ctx.miri_full() {
            break;
        }
        let g = &groups[(i % 4) as usize];
        let t = gentext::random_text(&mut ctx.rng, g.2, 12);
        check_text(ctx, &env, &t, ALL, 2);
        ctx.nontrivial(t.as_bytes());
    }
    ctx.feature_n("random_texts", rnd);
    if !miri && ctx.shard < 4 {
        let long_n = if ctx.tier == crate::ctx::Tier::Quick { 3 } else { 40 };
        for _ in 0..long_n {
            let g = &groups[ctx.rng.below(4)];
            let mut t = String::new();
            while t.len() < 65536 {
                let piece = if ctx.rng.chance(1, 2) { ctx.rng.pick(g.0).clone() } else { gentext::random_text(&mut ctx.rng, g.2, 20) };
                t.push_str(&piece);
                if ctx.rng.chance(1, 2) {
                    t.push(' ');
                }
            }
            ctx.begin_case(&format!("text:*:long:{}", t.len()));
            check_text(ctx, &env, &t, ALL, 2);
            ctx.feature("long_inputs");
        }
    }
}

pub fn replay(ctx: &mut Ctx, case: &str) -> bool {
    let parts: Vec<&str> = case.splitn(3, ':').collect();
    if parts.len() != 3 || parts[0] != "text" {
        return false;
    }
    let Some(bytes) = unhex(parts[2]) else { return false };
    let Ok(t) = String::from_utf8(bytes) else { return false };
    let env = Env::new();
    ctx.begin_case(case);
    check_text(ctx, &env, &t, ALL, POS_FENS.len());
    true
}
