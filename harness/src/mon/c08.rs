//! C08 — FEN formatting and FEN parsing are mutually inverse.

use super::*;
use crate::conv::{cell, coord, from_raw, full, to_raw};
use crate::gentext;
use crate::stream::Sources;
use owlchess::{Board, CastlingRights, Color, RawBoard};

pub fn check_pos(ctx: &mut Ctx, mp: &MPos, b: &Board) {
    let case = format!("pos:{}", mfen::to_xfen(mp));
    ctx.eval(4);
    let Some(text) = ctx.guard("as_fen", &case, || b.as_fen()) else { return };
    // (a) library round trip, all six fields and the derived state
    match ctx.guard("from_fen", &case, || Board::from_fen(&text)) {
        Some(Ok(b2)) => {
            if b2.raw() != b.raw() {
                ctx.violation("board_roundtrip", &case, &format!("as_fen={} parses back to {}", text, b2.raw().as_fen()));
            } else if full(&b2) != full(b) {
                ctx.violation("board_roundtrip_derived", &case, "parsed board differs in hash or occupancy sets");
            }
        }
        Some(Err(e)) => ctx.violation("board_roundtrip", &case, &format!("as_fen={} is rejected: {:?}", text, e)),
        None => {}
    }
    // (b) canonical record
    if let Err(e) = mfen::check_canonical(&text) {
        ctx.violation("fen_not_canonical", &case, &format!("{:?}: {}", text, e));
    }
    // (c) the independent reader sees the same position; (d) the independent writer the same text
    match mfen::from_fen(&text) {
        Ok(p2) => {
            if p2 != *mp {
                ctx.violation("independent_reader_disagrees", &case, &format!("{} read as {}", text, mfen::to_xfen(&p2)));
            }
        }
        Err(_) => {}
    }
    let want = mfen::to_fen(mp);
    if text != want {
        ctx.violation("independent_writer_disagrees", &case, &format!("library {:?} model {:?}", text, want));
    }
    // formatting must depend on the board formatted, not on what was formatted before it: same
    // squares/side/rights/mark with other counters, back to back
    let mut mp2 = mp.clone();
    mp2.halfmove = mp.halfmove.wrapping_add(1 + (ctx.cases % 7) as u16);
    mp2.fullmove = mp.fullmove.wrapping_add(1 + (ctx.cases % 5) as u16);
    if let Ok(b2) = crate::conv::to_board(&mp2) {
        ctx.eval(3);
        if let Some((t1, t2, t3)) = ctx.guard("as_fen_sequence", &case, || (b.as_fen(), b2.as_fen(), b.as_fen())) {
            if t1 != text || t3 != text || t2 != mfen::to_fen(&mp2) {
                ctx.violation("formatting_depends_on_earlier_calls", &case, &format!("{:?} / {:?} / {:?}", t1, t2, t3));
            }
        }
    }
    // Display and as_fen agree; RawBoard writer agrees
    if b.to_string() != text || b.raw().as_fen() != text {
        ctx.violation("writers_disagree", &case, "Board::to_string / RawBoard::as_fen differ from Board::as_fen");
    }
    if mp.ep.is_some() {
        ctx.feature("with_mark");
        if file_of(mp.ep.unwrap()) == 0 || file_of(mp.ep.unwrap()) == 7 {
            ctx.feature("with_edge_mark");
        }
    }
    if mp.halfmove > 9999 || mp.fullmove > 9999 {
        ctx.feature("five_digit_counter");
    }
    let empties = (0..8u8).filter(|&r| (0..8u8).all(|f| mp.at(sq(f, r)) == EMPTY)).count();
    if empties > 0 {
        ctx.feature("with_empty_rank");
    }
    ctx.nontrivial(&mp.full_key());
}

/// (e) raw boards, valid or not, with a rank-consistent mark.
fn check_raw(ctx: &mut Ctx, r: &RawBoard, tag: &str) {
    if ctx.miri_full() {
        return;
    }
    let mp = from_raw(r);
    let case = format!("raw:{}", mfen::to_xfen(&mp));
    ctx.begin_case(&case);
    ctx.feature(tag);
    ctx.eval(3);
    let Some(text) = ctx.guard("raw_as_fen", &case, || r.as_fen()) else { return };
    match ctx.guard("raw_from_fen", &case, || RawBoard::from_fen(&text)) {
        Some(Ok(r2)) => {
            if r2 != *r {
                ctx.violation("raw_roundtrip", &case, &format!("{} parses back to {}", text, r2.as_fen()));
            }
        }
        Some(Err(e)) => ctx.violation("raw_roundtrip", &case, &format!("{} is rejected: {:?}", text, e)),
        None => {}
    }
    if let Err(e) = mfen::check_canonical(&text) {
        ctx.violation("raw_fen_not_canonical", &case, &format!("{:?}: {}", text, e));
    }
    if let Ok(p2) = mfen::from_fen(&text) {
        if p2 != mp {
            ctx.violation("raw_independent_reader_disagrees", &case, &format!("{} read as {}", text, mfen::to_xfen(&p2)));
        }
    }
    if text != mfen::to_fen(&mp) {
        ctx.violation("raw_independent_writer_disagrees", &case, &format!("library {:?} model {:?}", text, mfen::to_fen(&mp)));
    }
    ctx.nontrivial(&mp.full_key());
}

fn random_raw(ctx: &mut Ctx) -> RawBoard {
    let mut r = RawBoard::empty();
    let dens = ctx.rng.below(41);
    for s in 0..64u8 {
        if ctx.rng.below(40) < dens {
            r.put(coord(s), cell(*ctx.rng.pick(&MEN)));
        }
    }
    r.side = if ctx.rng.chance(1, 2) { Color::White } else { Color::Black };
    r.castling = CastlingRights::from_index(ctx.rng.below(16));
    if ctx.rng.chance(1, 2) {
        let rank = if r.side == Color::White { 4 } else { 3 };
        r.ep_source = Some(coord(sq(ctx.rng.below(8) as u8, rank)));
    }
    r.move_counter = if ctx.rng.chance(1, 2) { ctx.rng.below(65536) as u16 } else { *ctx.rng.pick(&crate::gen::COUNTER_SET) };
    r.move_number = if ctx.rng.chance(1, 2) { ctx.rng.below(65536) as u16 } else { *ctx.rng.pick(&crate::gen::COUNTER_SET) };
    r
}

/// Exhaustive sub-spaces of the raw round trip.
fn exhaustive(ctx: &mut Ctx) {
    let mut idx = 0u64;
    // all 256 empty/occupied patterns of a rank in each of the 8 rank slots
    for slot in 0..8u8 {
        for pat in 0..256u32 {
            idx += 1;
            if !ctx.mine(idx) {
                continue;
            }
            let mut r = RawBoard::empty();
            for f in 0..8u8 {
                if pat & (1 << f) != 0 {
                    r.put(coord(sq(f, slot)), cell(MEN[((pat as usize) + f as usize) % 12]));
                }
            }
            check_raw(ctx, &r, "exh_rank_patterns");
        }
    }
    // all 13 cell values on all 64 squares
    for s in 0..64u8 {
        for m in std::iter::once(EMPTY).chain(MEN.iter().copied()) {
            idx += 1;
            if !ctx.mine(idx) {
                continue;
            }
            let mut r = RawBoard::empty();
            r.put(coord(s), cell(m));
            check_raw(ctx, &r, "exh_cells");
        }
    }
    // marks: 8 files x 2 sides; all 16 rights sets
    for f in 0..8u8 {
        for white in [true, false] {
            idx += 1;
            if !ctx.mine(idx) {
                continue;
            }
            let mut r = RawBoard::empty();
            r.side = if white { Color::White } else { Color::Black };
            r.ep_source = Some(coord(sq(f, if white { 4 } else { 3 })));
            check_raw(ctx, &r, "exh_marks");
        }
    }
    for c in 0..16 {
        idx += 1;
        if !ctx.mine(idx) {
            continue;
        }
        let mut r = RawBoard::initial();
        r.castling = CastlingRights::from_index(c);
        check_raw(ctx, &r, "exh_rights");
    }
    // all 65,536 values of each counter (cheap direct round trip, not announced as cases)
    if ctx.config != "miri" {
        let mut n = 0u64;
        for v in 0..=65535u32 {
            if !ctx.mine(v as u64) {
                continue;
            }
            for which in 0..2 {
                let mut r = RawBoard::initial();
                if which == 0 {
                    r.move_counter = v as u16;
                } else {
                    r.move_number = v as u16;
                }
                n += 1;
                let t = r.as_fen();
                let want = if which == 0 {
                    format!("rnbqkbnr/pppppppp/8/8/8/8/PPPPPPPP/RNBQKBNR w KQkq - {} 1", v)
                } else {
                    format!("rnbqkbnr/pppppppp/8/8/8/8/PPPPPPPP/RNBQKBNR w KQkq - 0 {}", v)
                };
                if t != want || RawBoard::from_fen(&t) != Ok(r) {
                    ctx.violation("counter_roundtrip", &format!("raw:{}", want), &format!("as_fen={}", t));
                }
            }
        }
        ctx.eval(n);
        ctx.feature_n("exh_counter_values", n);
    }
    if ctx.shard == 0 {
        ctx.exhaustive_parts.push("raw FEN round trip: all 256 occupancy patterns per rank slot, all 13 cell values on all 64 squares, 8 files x 2 sides of marks, all 16 rights sets, all 65,536 values of each counter".into());
    }
}

/// (f) for any accepted text, parse-format-parse is stable.
pub fn check_text(ctx: &mut Ctx, text: &str) {
    if ctx.miri_full() {
        return;
    }
    let case = format!("text:{}", crate::ctx::hex(text.as_bytes()));
    ctx.eval(1);
    let Some(r1) = ctx.guard("text_from_fen", &case, || RawBoard::from_fen(text)) else { return };
    let Ok(r1) = r1 else {
        ctx.feature("text_rejected");
        return;
    };
    ctx.begin_case(&case);
    ctx.feature("text_accepted");
    let canonical = mfen::check_canonical(text).is_ok();
    if !canonical {
        ctx.feature("text_accepted_noncanonical");
    }
    let Some(t) = ctx.guard("text_as_fen", &case, || r1.as_fen()) else { return };
    match ctx.guard("text_reparse", &case, || RawBoard::from_fen(&t)) {
        Some(Ok(r2)) => {
            if r2 != r1 {
                ctx.violation("parse_format_parse", &case, &format!("{:?} -> {:?} -> different board", crate::ctx::preview(text), t));
            } else if r2.as_fen() != t {
                ctx.violation("format_not_fixed_point", &case, &format!("{:?} then {:?}", t, r2.as_fen()));
            }
        }
        Some(Err(e)) => ctx.violation("parse_format_parse", &case, &format!("{:?} accepted, its formatting {:?} rejected: {:?}", crate::ctx::preview(text), t, e)),
        None => {}
    }
    if canonical && t != text {
        ctx.violation("canonical_text_not_reproduced", &case, &format!("{:?} formatted back as {:?}", text, t));
    }
    // Board level: accepted text -> board -> text -> same board
    if let Some(Ok(b)) = ctx.guard("text_board_from_fen", &case, || Board::from_fen(text)) {
        let t2 = b.as_fen();
        match ctx.guard("text_board_reparse", &case, || Board::from_fen(&t2)) {
            Some(Ok(b2)) if b2.raw() == b.raw() => {}
            Some(other) => ctx.violation("board_parse_format_parse", &case, &format!("{:?} -> {:?} -> {:?}", crate::ctx::preview(text), t2, other.map(|b| b.as_fen()))),
            None => {}
        }
    }
    ctx.nontrivial(text.as_bytes());
}

pub fn run(ctx: &mut Ctx) {
    if ctx.shard == 0 {
        // the built-in initial position is the standard one
        let ini = "rnbqkbnr/pppppppp/8/8/8/8/PPPPPPPP/RNBQKBNR w KQkq - 0 1";
        if RawBoard::initial().as_fen() != ini || Board::initial().as_fen() != ini || from_raw(&RawBoard::initial()) != MPos::initial() {
            ctx.violation("initial_position", "raw:initial", "RawBoard::initial / Board::initial is not the standard initial position");
        }
        if from_raw(&RawBoard::empty()) != MPos::empty() || RawBoard::default() != RawBoard::empty() {
            ctx.violation("empty_board", "raw:empty", "RawBoard::empty / default");
        }
    }
    exhaustive(ctx);
    let n = ctx.budget(1_500_000, 20_000_000);
    let mut src = Sources::standard(n);
    src.three_man = n / 20;
    // collect some valid FEN texts for mutation while streaming
    let mut texts: Vec<String> = Vec::new();
    stream::run(ctx, &src, &mut |ctx: &mut Ctx, mp: &MPos, b: &Board| {
        check_pos(ctx, mp, b);
        if texts.len() < 400 && ctx.cases % 7 == 0 {
            texts.push(mfen::to_fen(mp));
        }
    });
    for _ in 0..n {
        let r = random_raw(ctx);
        check_raw(ctx, &r, "random_raw");
    }
    // texts: hand-written variants + single edits of valid texts
    for t in gentext::FEN_VARIANTS {
        check_text(ctx, t);
    }
    let m = ctx.budget(2_000_000, 25_000_000);
    for _ in 0..m {
        if texts.is_empty() {
            break;
        }
        let base = ctx.rng.pick(&texts).clone();
        let t = gentext::mutate(&mut ctx.rng, &base, gentext::FEN_ALPHABET);
        check_text(ctx, &t);
    }
    let _ = to_raw;
}

pub fn replay(ctx: &mut Ctx, case: &str) -> bool {
    if let Some(h) = case.strip_prefix("text:") {
        let Some(bytes) = crate::ctx::unhex(h) else { return false };
        let Ok(s) = String::from_utf8(bytes) else { return false };
        check_text(ctx, &s);
        return true;
    }
    if let Some(x) = case.strip_prefix("raw:") {
        let Ok(p) = mfen::from_fen(x) else { return false };
        check_raw(ctx, &to_raw(&p), "replay");
        return true;
    }
    replay_pos(ctx, case.split('|').next().unwrap_or(case), &mut check_pos)
}
