//! C03 — applying a move produces the position the rules prescribe.

use super::*;
use crate::conv::{from_raw, to_move};
use crate::stream::Sources;
use owlchess::Board;

fn mv_str(m: &MMove) -> String {
    format!("{:?}:{}:{}", m.kind, m.man as char, m.uci())
}

fn field_diff(a: &MPos, b: &MPos) -> String {
    let mut d = Vec::new();
    for s in 0..64u8 {
        if a.at(s) != b.at(s) {
            d.push(format!("{}:{}!={}", sq_name(s), a.at(s) as char, b.at(s) as char));
        }
    }
    if a.white_to_move != b.white_to_move {
        d.push("side".into());
    }
    if a.castle != b.castle {
        d.push(format!("castling {:?}!={:?}", a.castle, b.castle));
    }
    if a.ep != b.ep {
        d.push(format!("mark {:?}!={:?}", a.ep.map(sq_name), b.ep.map(sq_name)));
    }
    if a.halfmove != b.halfmove {
        d.push(format!("clock {}!={}", a.halfmove, b.halfmove));
    }
    if a.fullmove != b.fullmove {
        d.push(format!("number {}!={}", a.fullmove, b.fullmove));
    }
    d.join(" ")
}

pub fn check_pos(ctx: &mut Ctx, mp: &MPos, b: &Board) {
    let case = format!("pos:{}", mfen::to_xfen(mp));
    let legal = mp.legal_moves();
    let mut any_special = false;
    for m in &legal {
        let Some(lm) = to_move(m) else {
            ctx.feature("legal_move_not_constructible_skipped");
            continue;
        };
        let mcase = format!("{}|{}", case, mv_str(m));
        ctx.eval(1);
        let want = mp.apply(m);
        let Some(r) = ctx.guard("make_move", &mcase, || b.make_move(lm)) else { continue };
        let nb = match r {
            Ok(nb) => nb,
            Err(e) => {
                // acceptance is C02's business; nothing to compare here
                ctx.feature("legal_move_refused_skipped");
                let _ = e;
                continue;
            }
        };
        let got = from_raw(nb.raw());
        if got != want {
            ctx.violation("successor_mismatch", &mcase, &format!("library vs rules: {}", field_diff(&got, &want)));
        }
        // second observation point: the FEN text of the successor
        if let Some(fen) = ctx.guard("as_fen", &mcase, || nb.as_fen()) {
            let wfen = mfen::to_fen(&want);
            if fen != wfen && got == want {
                ctx.violation("successor_fen_mismatch", &mcase, &format!("as_fen={} rules={}", fen, wfen));
            }
        }
        // coverage histogram
        let cap = mp.is_capture(m);
        let k = match m.kind {
            MKind::Simple => "simple",
            MKind::CastleK => "castle_k",
            MKind::CastleQ => "castle_q",
            MKind::Double => "double",
            MKind::EnPassant => "enpassant",
            _ => "promo",
        };
        ctx.feature(&format!("mv_{}{}", k, if cap { "_capture" } else { "" }));
        if m.kind != MKind::Simple {
            any_special = true;
        }
        if m.kind.is_promo() && cap && (m.to == 0 || m.to == 7 || m.to == 56 || m.to == 63) && want.castle != mp.castle {
            ctx.feature("promo_captures_home_rook_with_right");
        }
        if kind(m.man) == b'K' && cap && (m.to == 0 || m.to == 7 || m.to == 56 || m.to == 63) && {
            let idx = match m.to { 7 => 0, 0 => 1, 63 => 2, _ => 3 };
            mp.castle[idx]
        } {
            ctx.feature("king_captures_home_rook_with_right");
        }
        if kind(m.man) == b'R' && cap && kind(mp.at(m.to)) == b'R' && [0u8, 7, 56, 63].contains(&m.from) && [0u8, 7, 56, 63].contains(&m.to) {
            ctx.feature("rook_takes_rook_home_to_home");
        }
        if m.kind == MKind::EnPassant {
            let flank = if file_of(m.to) == 0 || file_of(m.to) == 7 { "edge" } else if file_of(m.to) < 4 { "queenside" } else { "kingside" };
            ctx.feature(&format!("ep_{}_{}", if mp.white_to_move { "white" } else { "black" }, flank));
        }
        if want.castle != mp.castle {
            ctx.feature("rights_changed");
        }
        match (mp.halfmove, want.halfmove) {
            (99, 100) => ctx.feature("clock_99_to_100"),
            (149, 150) => ctx.feature("clock_149_to_150"),
            (65535, 65535) => ctx.feature("clock_saturated"),
            (65534, 65535) => ctx.feature("clock_65534_to_65535"),
            _ => {}
        }
        if mp.fullmove == 65535 && !mp.white_to_move {
            ctx.feature("number_saturated");
        }
    }
    if any_special || mp.halfmove >= 99 {
        ctx.nontrivial(&mp.full_key());
    }
}

pub fn run(ctx: &mut Ctx) {
    let n = ctx.budget(1_500_000, 20_000_000);
    let mut src = Sources::standard(n);
    src.three_man = n / 10;
    stream::run(ctx, &src, &mut check_pos);
}

pub fn replay(ctx: &mut Ctx, case: &str) -> bool {
    replay_pos(ctx, case.split('|').next().unwrap_or(case), &mut check_pos)
}
