//! C10 — UCI move text round-trips and is accepted exactly when such a move exists.

use super::*;
use crate::conv::to_move;
use crate::stream::Sources;
use owlchess::chain::MoveChain;
use owlchess::moves::{make, uci, Make, Move};
use owlchess::Board;

fn find<'a>(set: &'a [MMove], from: Sq, to: Sq, promo: Option<u8>) -> Vec<&'a MMove> {
    set.iter().filter(|m| m.from == from && m.to == to && m.kind.promo_letter() == promo).collect()
}

pub fn check_pos(ctx: &mut Ctx, mp: &MPos, b: &Board) {
    let case = format!("pos:{}", mfen::to_xfen(mp));
    let pseudo = sorted(mp.pseudo_moves());
    let legal: Vec<MMove> = pseudo.iter().copied().filter(|m| mp.is_legal_pseudo(m)).collect();

    // round trip of every semilegal move
    for m in &pseudo {
        let Some(lm) = to_move(m) else { continue };
        let is_legal = legal.contains(m);
        let mcase = format!("{}|{}", case, m.uci());
        ctx.eval(5);
        let Some(text) = ctx.guard("to_string", &mcase, || lm.to_string()) else { continue };
        if text != m.uci() {
            ctx.violation("uci_text", &mcase, &format!("library writes {:?}, coordinate notation is {:?}", text, m.uci()));
        }
        if lm.uci().to_string() != text {
            ctx.violation("uci_text", &mcase, "Move::uci().to_string() differs from Move::to_string()");
        }
        if let Some(r) = ctx.guard("from_uci", &mcase, || Move::from_uci(&text, b)) {
            if r != Ok(lm) {
                ctx.violation("uci_roundtrip", &mcase, &format!("from_uci({:?}) = {:?}, wanted {}", text, r.map(|x| crate::conv::move_desc(&x)), crate::conv::move_desc(&lm)));
            }
        }
        if let Some(r) = ctx.guard("uci_into_move", &mcase, || uci::Move::from(lm).into_move(b)) {
            if r != Ok(lm) {
                ctx.violation("uci_roundtrip_parsed", &mcase, &format!("{:?}", r.map(|x| crate::conv::move_desc(&x))));
            }
        }
        if let Some(r) = ctx.guard("from_uci_semilegal", &mcase, || Move::from_uci_semilegal(&text, b)) {
            if r != Ok(lm) {
                ctx.violation("uci_semilegal_reader_rejects_semilegal", &mcase, &format!("{:?}", r.map(|x| crate::conv::move_desc(&x))));
            }
        }
        if let Some(r) = ctx.guard("from_uci_legal", &mcase, || Move::from_uci_legal(&text, b)) {
            if r.is_ok() != is_legal || (is_legal && r != Ok(lm)) {
                ctx.violation("uci_legal_reader", &mcase, &format!("legal={} result {:?}", is_legal, r.map(|x| crate::conv::move_desc(&x))));
            }
        }
        if m.kind != MKind::Simple {
            ctx.feature(&format!("roundtrip_{:?}", m.kind));
        }
    }

    // the null move is never a move to play
    ctx.eval(6);
    let nul = ctx.guard("null", &case, || {
        let mut ch = MoveChain::new(b.clone());
        (
            Move::from_uci_semilegal("0000", b).is_ok(),
            Move::from_uci_legal("0000", b).is_ok(),
            make::Uci("0000").make(b).is_ok(),
            uci::Move::Null.make(b).is_ok(),
            ch.push(make::Uci("0000")).is_ok() || ch.len() != 0,
            ch.push(Move::NULL).is_ok() || ch.len() != 0,
            Move::NULL.make(b).is_ok(),
        )
    });
    if let Some(t) = nul {
        if t.0 || t.1 || t.2 || t.3 || t.4 || t.5 || t.6 {
            ctx.violation("null_move_accepted", &case, &format!("semilegal-reader, legal-reader, Uci.make, uci::Null.make, chain.push(Uci), chain.push(NULL), NULL.make accepted: {:?}", t));
        }
    }

    // full string-space sweep on a sample of positions
    let miri = ctx.config == "miri";
    let sweep = ctx.is_replay || ctx.cases % 12 == 1 || mp.ep.is_some() && ctx.cases % 3 == 0 || mp.castle.iter().any(|&c| c) && ctx.cases % 4 == 0;
    if sweep && (!miri || ctx.cases <= 2) {
        ctx.feature("string_space_sweeps");
        let mut n = 0u64;
        let mut text = String::with_capacity(5);
        // under Miri: only the source squares that hold a man of the side to move, every 4th of the rest
        for from in (0..64u8).filter(|&f| !miri || (mp.at(f) != EMPTY && is_white(mp.at(f)) == mp.white_to_move) || f % 16 == 3) {
            for to in 0..64u8 {
                for promo in [None, Some(b'N'), Some(b'B'), Some(b'R'), Some(b'Q')] {
                    text.clear();
                    text.push_str(&sq_name(from));
                    text.push_str(&sq_name(to));
                    if let Some(p) = promo {
                        text.push(p.to_ascii_lowercase() as char);
                    }
                    n += 2;
                    let ps = find(&pseudo, from, to, promo);
                    let lg = find(&legal, from, to, promo);
                    let r1 = Move::from_uci_semilegal(&text, b);
                    let r2 = Move::from_uci_legal(&text, b);
                    let ok1 = match (&r1, ps.as_slice()) {
                        (Ok(mv), [m]) => crate::conv::from_move(mv).as_ref() == Some(*m),
                        (Err(_), []) => true,
                        _ => false,
                    };
                    let ok2 = match (&r2, lg.as_slice()) {
                        (Ok(mv), [m]) => crate::conv::from_move(mv).as_ref() == Some(*m),
                        (Err(_), []) => true,
                        _ => false,
                    };
                    if !ok1 {
                        ctx.violation("uci_semilegal_reader_vs_rules", &format!("{}|{}", case, text), &format!("reader {:?}; pseudo-legal moves with these squares: {:?}", r1.map(|x| crate::conv::move_desc(&x)), ps));
                    }
                    if !ok2 {
                        ctx.violation("uci_legal_reader_vs_rules", &format!("{}|{}", case, text), &format!("reader {:?}; legal moves with these squares: {:?}", r2.map(|x| crate::conv::move_desc(&x)), lg));
                    }
                }
            }
        }
        ctx.eval(n);
    }
    if pseudo.iter().any(|m| m.kind != MKind::Simple) {
        ctx.nontrivial(&mp.rep_key());
    }
    // look-alikes
    let w = mp.white_to_move;
    let r = if w { 0 } else { 7 };
    if mp.at(sq(4, r)) == man(w, b'K') && !pseudo.iter().any(|m| matches!(m.kind, MKind::CastleK | MKind::CastleQ)) {
        ctx.feature("king_at_home_without_castling");
    }
    if mp.at(sq(4, r)) != EMPTY && kind(mp.at(sq(4, r))) != b'K' && is_white(mp.at(sq(4, r))) == w {
        ctx.feature("non_king_on_king_home");
    }
}

pub fn run(ctx: &mut Ctx) {
    if ctx.shard == 0 {
        ctx.exhaustive_parts.push("on every swept position: all 20,480 strings [a-h][1-8][a-h][1-8][nbrq]? for both readers, plus 0000 through six entry points".into());
    }
    let n = ctx.budget(400_000, 5_000_000);
    let mut src = Sources::standard(n);
    src.three_man = n / 20;
    stream::run(ctx, &src, &mut check_pos);
}

pub fn replay(ctx: &mut Ctx, case: &str) -> bool {
    replay_pos(ctx, case.split('|').next().unwrap_or(case), &mut check_pos)
}
