//! C19 — unchecked internals never go out of bounds on any valid position.
//! Channels: (1) move-list observer hook (max length, panic before the overflowing write),
//! (2) the union workload below under debug assertions / ASan / Miri, (3) a directed search for
//! positions with many semilegal moves.

use super::*;
use crate::conv::{cell, color, coord, to_board, to_move};
use crate::gen;
use crate::stream::Sources;
use owlchess::chain::MoveChain;
use owlchess::movegen::{self, legal, semilegal};
use owlchess::moves::{self, Move};
use owlchess::{Board, CastlingRights, Cell, Color, Piece, RawBoard};

thread_local! {
    static ACC: std::cell::RefCell<owlchess::MoveList> = std::cell::RefCell::new(owlchess::MoveList::new());
}

/// Everything that indexes a table or fills a buffer, on one valid position.
pub fn exercise(ctx: &mut Ctx, mp: &MPos, b: &Board) {
    let case = format!("pos:{}", mfen::to_xfen(mp));
    let r = crate::ctx::catch(|| {
        let mut n = 0u64;
        let all = semilegal::gen_all(b);
        let counts = [
            all.len(),
            semilegal::gen_capture(b).len(),
            semilegal::gen_simple(b).len(),
            semilegal::gen_simple_no_promote(b).len(),
            semilegal::gen_simple_promote(b).len(),
            legal::gen_all(b).len(),
            legal::gen_capture(b).len(),
            legal::gen_simple(b).len(),
            legal::gen_simple_no_promote(b).len(),
            legal::gen_simple_promote(b).len(),
        ];
        n += 10;
        let mut v: Vec<Move> = Vec::new();
        semilegal::gen_all_into(b, &mut v);
        let mut ml = owlchess::MoveList::new();
        semilegal::gen_capture_into(b, &mut ml);
        let _ = (b.has_legal_moves(), b.is_check(), b.checkers(), b.calc_outcome(), b.is_opponent_king_attacked());
        n += 7;
        let light = ctx.config == "miri";
        for s in (0..64u8).filter(|s| !light || s % 5 == 0) {
            for w in [true, false] {
                let _ = movegen::is_cell_attacked(b, coord(s), color(w));
                let _ = movegen::cell_attackers(b, coord(s), color(w));
            }
            let _ = b.get(coord(s));
        }
        n += 320;
        for c in Cell::iter() {
            let _ = b.piece(c);
        }
        for col in [Color::White, Color::Black] {
            let _ = b.color(col);
            let _ = b.king_pos(col);
            for p in Piece::iter() {
                let _ = b.piece2(col, p);
            }
        }
        n += 29;
        // make/undo every semilegal move; SAN and UCI text of every legal one
        let mut bb = b.clone();
        for (mi, mv) in all.iter().enumerate() {
            if light && mi % 3 != 0 {
                continue;
            }
            let u = unsafe { moves::make_move_unchecked(&mut bb, *mv) };
            let attacked = bb.is_opponent_king_attacked();
            unsafe { moves::unmake_move_unchecked(&mut bb, *mv, u) };
            n += 1;
            if !attacked && (!light || n % 7 == 0) {
                let _ = mv.san(b).map(|s| s.to_string());
                let _ = Move::from_uci(&mv.to_string(), b);
                n += 2;
            }
        }
        // hand-built special-kind tuples of the side to move through the validator (it does unchecked
        // square arithmetic that is only safe for what well-formedness admits)
        {
            use owlchess::moves::MoveKind;
            let w = mp.white_to_move;
            let pawn = cell(man(w, b'P'));
            let king = cell(man(w, b'K'));
            let (epf, ept, dbf, dbt, prf, prt, home) = if w { (4u8, 5u8, 1u8, 3u8, 6u8, 7u8, 0u8) } else { (3, 2, 6, 4, 1, 0, 7) };
            let fpick = (n % 4) as u8;
            for f in (0..8u8).filter(|f| !light || f % 4 == fpick) {
                for df in [-1i8, 0, 1] {
                    let tf = f as i8 + df;
                    if !(0..8).contains(&tf) {
                        continue;
                    }
                    let tf = tf as u8;
                    let mut tuples = vec![(MoveKind::PromoteQueen, pawn, sq(f, prf), sq(tf, prt)), (MoveKind::PromoteKnight, pawn, sq(f, prf), sq(tf, prt))];
                    if df != 0 {
                        tuples.push((MoveKind::Enpassant, pawn, sq(f, epf), sq(tf, ept)));
                    } else {
                        tuples.push((MoveKind::PawnDouble, pawn, sq(f, dbf), sq(f, dbt)));
                    }
                    for (k, c, from, to) in tuples {
                        if let Ok(mv) = Move::new(k, c, coord(from), coord(to)) {
                            let _ = mv.is_semilegal(b);
                            let _ = mv.validate(b);
                            let _ = mv.uci().into_move(b).map(|m2| m2.is_semilegal(b));
                            n += 3;
                        }
                    }
                }
            }
            for (k, tf) in [(MoveKind::CastlingKingside, 6u8), (MoveKind::CastlingQueenside, 2u8)] {
                if let Ok(mv) = Move::new(k, king, coord(sq(4, home)), coord(sq(tf, home))) {
                    let _ = mv.is_semilegal(b);
                    let _ = mv.validate(b);
                    n += 2;
                }
            }
        }
        // text-driven entry points compute squares from characters and then index tables with them
        {
            let mut t = String::with_capacity(6);
            let pick = (n % 32) as u8;
            for s in (0..64u8).filter(|s| !light || s % 32 == pick) {
                let name = sq_name(s);
                let _ = Move::from_san(&name, b);
                t.clear();
                t.push_str(&name);
                t.push_str("=Q");
                let _ = Move::from_san(&t, b);
                for pc in ["N", "B", "R", "Q", "K"] {
                    t.clear();
                    t.push_str(pc);
                    t.push_str(&name);
                    let _ = Move::from_san(&t, b);
                }
                for f in ["a", "d", "h"] {
                    t.clear();
                    t.push_str(f);
                    t.push('x');
                    t.push_str(&name);
                    let _ = Move::from_san(&t, b);
                    t.clear();
                    t.push_str(f);
                    t.push_str("1");
                    t.push_str(&name);
                    let _ = Move::from_uci(&t, b);
                    let _ = Move::from_uci_legal(&t, b);
                }
                n += 14;
            }
            for t in ["O-O", "O-O-O", "ab", "ba", "gh", "hg", "de=Q", "0000", "a1a1", "h8h8q"] {
                let _ = Move::from_san(t, b);
                let _ = Move::from_uci_semilegal(t, b);
                n += 2;
            }
        }
        let _ = Board::from_fen(&b.as_fen());
        let mut ch = MoveChain::new(b.clone());
        if let Some(mv) = legal::gen_all(b).first() {
            let _ = ch.push(*mv);
            let _ = ch.calc_outcome();
            let _ = ch.pop();
        }
        n += 5;
        (n, counts)
    });
    // caller-provided fixed-capacity sinks reused across positions: a push beyond the capacity
    // may panic (documented arrayvec behaviour) but must never grow the list past its capacity
    let acc = if ctx.config == "miri" && ctx.cases % 4 != 0 { Ok((0, 256)) } else { crate::ctx::catch(|| {
        ACC.with(|a| {
            let mut a = a.borrow_mut();
            semilegal::gen_all_into(b, &mut *a);
            semilegal::gen_capture_into(b, &mut *a);
            (a.len(), a.capacity())
        })
    }) };
    let acc_len = ACC.with(|a| match a.try_borrow_mut() {
        Ok(mut a) => {
            let l = (a.len(), a.capacity());
            if acc.is_err() || a.len() > a.capacity() {
                a.clear();
            }
            l
        }
        Err(_) => (0, 256),
    });
    if acc.is_err() {
        ctx.feature("caller_list_overflow_panics");
    }
    if acc_len.0 > acc_len.1 {
        ctx.violation("caller_provided_move_list_grew_past_its_capacity", &case, &format!("len {} capacity {}", acc_len.0, acc_len.1));
    }
    match r {
        Ok((n, counts)) => {
            ctx.eval(n);
            ctx.feature_max("max_semilegal_moves_seen", counts[0] as u64);
            ctx.feature_max("max_legal_moves_seen", counts[5] as u64);
            if counts[0] >= 100 {
                ctx.feature("positions_with_100plus_semilegal_moves");
            }
            if counts[0] >= 200 {
                ctx.feature("positions_with_200plus_semilegal_moves");
            }
            // the count is cross-checked with the model on the busiest positions
            if counts[0] >= 150 || ctx.cases % 64 == 0 {
                let want = mp.pseudo_moves().len();
                if want != counts[0] && ctx.notes.len() < 4 {
                    // C06's business; only noted here
                    ctx.notes.push(format!("semilegal count differs from the rules at {}: library {} rules {}", case, counts[0], want));
                }
            }
            if counts[0] > 256 {
                ctx.violation("more_than_256_semilegal_moves", &case, &format!("{}", counts[0]));
            }
            if counts[0] >= 40 {
                ctx.nontrivial(&mp.rep_key());
            }
        }
        Err(msg) => {
            let of = crate::hooks::take_overflow();
            if !of.is_empty() {
                ctx.violation("move_list_overflow", &case, &of[0]);
            } else {
                ctx.violation(&format!("panic:exercise:{}", crate::ctx::panic_site(&msg)), &case, &msg);
            }
        }
    }
}

/// Every value of every index type through the public functions that index with it.
fn index_domains(ctx: &mut Ctx) {
    ctx.begin_case("index-domains");
    let r = crate::ctx::catch(|| {
        let mut n = 0u64;
        let mut raw = RawBoard::empty();
        for s in 0..64u8 {
            for m in std::iter::once(EMPTY).chain(MEN.iter().copied()) {
                raw.put(coord(s), cell(m));
                assert!(raw.get(coord(s)) == cell(m));
                let _ = raw.zobrist_hash();
                n += 3;
            }
            raw.put(coord(s), Cell::EMPTY);
            raw.ep_source = Some(coord(s));
            let _ = raw.zobrist_hash();
            let _ = raw.ep_dest();
            let _ = raw.as_fen();
            raw.ep_source = None;
            n += 3;
        }
        for i in 0..16 {
            raw.castling = CastlingRights::from_index(i);
            let _ = raw.zobrist_hash();
            let _ = raw.as_fen();
            n += 2;
        }
        for f in owlchess::File::iter() {
            for rk in owlchess::Rank::iter() {
                let _ = raw.get2(f, rk);
                raw.put2(f, rk, Cell::EMPTY);
                n += 2;
            }
        }
        n
    });
    // Out-of-domain arguments to the checked constructors of the index types: they panic (fine), or
    // whatever they return must carry an index inside the table domain; a value that got through is
    // then used the way the library uses it (hashing, FEN, validation), so that an out-of-range
    // lookup is also seen by the std precondition checks / ASan / Miri.
    let miri = ctx.config == "miri";
    let mut probes: Vec<usize> = (0..=(if miri { 20usize } else { 300 })).collect();
    for k in if miri { vec![8usize] } else { vec![8usize, 16, 32] } {
        for d in 0..(if miri { 2usize } else { 70 }) {
            probes.push((1usize << k) + d);
            probes.push((1usize << k).wrapping_mul(3) + d);
        }
    }
    probes.extend([usize::MAX, usize::MAX - 1, usize::MAX / 2 + 1, u32::MAX as usize, u32::MAX as usize + 1]);
    let mut leaked: Vec<String> = Vec::new();
    let mut probe_n = 0u64;
    for &i in &probes {
        probe_n += 6;
        if let Ok(v) = crate::ctx::catch(|| CastlingRights::from_index(i)) {
            if v.index() >= 16 {
                leaked.push(format!("CastlingRights::from_index({}) returned a value with index {}", i, v.index()));
                let _ = crate::ctx::catch(|| {
                    let mut r = RawBoard::initial();
                    r.castling = v;
                    let _ = r.zobrist_hash();
                    let _ = r.as_fen();
                    let _ = Board::try_from(r).map(|b| (b.zobrist_hash(), semilegal::gen_all(&b).len()));
                });
            }
        }
        if let Ok(v) = crate::ctx::catch(|| owlchess::Coord::from_index(i)) {
            if v.index() >= 64 {
                leaked.push(format!("Coord::from_index({}) returned a value with index {}", i, v.index()));
            }
        }
        if let Ok(v) = crate::ctx::catch(|| owlchess::File::from_index(i)) {
            if v.index() >= 8 {
                leaked.push(format!("File::from_index({}) returned a value with index {}", i, v.index()));
            }
        }
        if let Ok(v) = crate::ctx::catch(|| owlchess::Rank::from_index(i)) {
            if v.index() >= 8 {
                leaked.push(format!("Rank::from_index({}) returned a value with index {}", i, v.index()));
            }
        }
        if let Ok(v) = crate::ctx::catch(|| Piece::from_index(i)) {
            if v.index() >= 6 {
                leaked.push(format!("Piece::from_index({}) returned a value with index {}", i, v.index()));
            }
        }
        if let Ok(v) = crate::ctx::catch(|| Cell::from_index(i)) {
            if v.index() >= 13 {
                leaked.push(format!("Cell::from_index({}) returned a value with index {}", i, v.index()));
            }
        }
    }
    ctx.eval(probe_n);
    ctx.feature_n("out_of_domain_constructor_probes", probe_n);
    if let Some(l) = leaked.first() {
        ctx.violation("index_value_outside_table_domain", "index-domains", l);
    }
    match r {
        Ok(n) => {
            ctx.eval(n);
            ctx.feature_n("index_domain_calls", n);
        }
        Err(msg) => ctx.violation(&format!("panic:index_domains:{}", crate::ctx::panic_site(&msg)), "index-domains", &msg),
    }
}

fn count_of(ctx: &mut Ctx, p: &MPos) -> Option<usize> {
    let n = p.normalized();
    if !n.is_valid() {
        return None;
    }
    let b = to_board(&n).ok()?;
    let case = format!("pos:{}", mfen::to_xfen(&n));
    match crate::ctx::catch(|| semilegal::gen_all(&b).len()) {
        Ok(c) => Some(c),
        Err(msg) => {
            let of = crate::hooks::take_overflow();
            if !of.is_empty() {
                ctx.violation("move_list_overflow", &case, &of[0]);
            } else {
                ctx.violation(&format!("panic:gen_all:{}", crate::ctx::panic_site(&msg)), &case, &msg);
            }
            None
        }
    }
}

/// Raw boards on which one side has 17..31 men (mostly queens) while the total stays within 32, the
/// other king shielded in a corner so that it is not attacked. The validator must turn them down;
/// C19 does not judge that (C11 does), but if one gets through it is a "valid position" as far as the
/// API is concerned, and the generators are run on it under the move-list observer.
fn overfull(ctx: &mut Ctx, count: u64) {
    for _ in 0..count {
        let w = ctx.rng.chance(1, 2);
        let mut p = MPos::empty();
        p.white_to_move = w;
        // victim king on a1 with the mover's bishops on b1, a2 and a knight on b2 (blocks every line)
        p.sq[sq(0, 0) as usize] = man(!w, b'K');
        p.sq[sq(1, 0) as usize] = man(w, b'B');
        p.sq[sq(0, 1) as usize] = man(w, b'B');
        p.sq[sq(1, 1) as usize] = man(w, b'N');
        if ctx.rng.chance(1, 2) {
            // the rim of the board (nearly) full of the mover's queens, the interior (nearly) empty:
            // the shape with the most moves per man
            let rim: Vec<Sq> = (0..64u8).filter(|&t| (file_of(t) == 0 || file_of(t) == 7 || rank_of(t) == 0 || rank_of(t) == 7) && p.at(t) == EMPTY).collect();
            let kpos = loop {
                let t = *ctx.rng.pick(&rim);
                if !(file_of(t) <= 2 && rank_of(t) <= 2) {
                    break t;
                }
            };
            let holes = ctx.rng.below(4);
            for &t in &rim {
                if t == kpos {
                    p.sq[t as usize] = man(w, b'K');
                } else if ctx.rng.below(25) < holes {
                    if ctx.rng.chance(1, 2) {
                        p.sq[t as usize] = man(w, *ctx.rng.pick(b"RB"));
                    }
                } else {
                    p.sq[t as usize] = man(w, b'Q');
                }
            }
            for _ in 0..ctx.rng.below(3) {
                let t = ctx.rng.below(64) as u8;
                if p.at(t) == EMPTY {
                    p.sq[t as usize] = man(w, *ctx.rng.pick(b"QQRB"));
                }
            }
        } else {
            let extras = 13 + ctx.rng.below(16) as usize; // 3 + 1 + extras = 17..=32 men for the mover
            let mut placed = 0usize;
            let mut king_done = false;
            let mut tries = 0;
            while (placed < extras || !king_done) && tries < 4000 {
                tries += 1;
                let t = ctx.rng.below(64) as u8;
                if p.at(t) != EMPTY {
                    continue;
                }
                if !king_done {
                    if file_of(t) <= 2 && rank_of(t) <= 2 {
                        continue;
                    }
                    p.sq[t as usize] = man(w, b'K');
                    king_done = true;
                    continue;
                }
                // no knights (they could attack the corner), no pawns (rank rules); every line into
                // the corner is blocked by the shield
                p.sq[t as usize] = man(w, *ctx.rng.pick(b"QQQQQRB"));
                placed += 1;
            }
        }
        if ctx.rng.chance(1, 2) {
            p = p.mirror_h();
        }
        if ctx.rng.chance(1, 2) {
            let wtm = p.white_to_move;
            p = p.mirror_v();
            p.white_to_move = !wtm;
        }
        overfull_one(ctx, &p);
    }
}

fn overfull_one(ctx: &mut Ctx, p: &MPos) {
    {
        let mover = p.white_to_move;
        let own = p.count(mover);
        let total = own + p.count(!mover);
        let case = format!("raw:{}", mfen::to_xfen(p));
        ctx.begin_case(&case);
        ctx.eval(1);
        ctx.feature("overfull_raw_offered");
        if total <= 32 {
            ctx.feature("overfull_raw_offered_total_within_32");
        }
        let raw = crate::conv::to_raw(p);
        let r = crate::ctx::catch(|| match Board::try_from(raw.clone()) {
            Err(_) => None,
            Ok(b) => {
                let a = semilegal::gen_all(&b).len();
                let l = legal::gen_all(&b).len();
                let h = b.has_legal_moves();
                let _ = b.calc_outcome();
                Some((a, l, h))
            }
        });
        let of = crate::hooks::take_overflow();
        if !of.is_empty() {
            ctx.violation("move_list_overflow", &case, &format!("{} men for the side to move were let through validation; {}", own, of[0]));
            return;
        }
        match r {
            Ok(None) => ctx.feature("overfull_raw_rejected"),
            Ok(Some((a, _, _))) => {
                ctx.feature("overfull_raw_accepted_by_validation");
                if ctx.notes.len() < 6 {
                    ctx.notes.push(format!("a raw board with {} men for one side was accepted by validation ({} semilegal moves): C11's business, no buffer was exceeded", own, a));
                }
            }
            Err(msg) => ctx.violation(&format!("panic:overfull:{}", crate::ctx::panic_site(&msg)), &case, &msg),
        }
    }
}

/// G8: simulated annealing over valid positions, maximising the semilegal move count.
fn mobility_search(ctx: &mut Ctx, iters: u64) {
    let seeds: Vec<MPos> = if ctx.light() { Vec::new() } else { gen::fixed_positions().into_iter().filter(|p| p.sq.iter().filter(|&&c| kind(c) == b'Q').count() >= 5).collect() };
    let mut best_overall = 0usize;
    let mut best_pos = String::new();
    let restarts = (iters / 4000).max(1);
    for r in 0..restarts {
        let mut cur = if r % 3 == 0 && !seeds.is_empty() { ctx.rng.pick(&seeds).clone() } else { gen::fam_mobility(&mut ctx.rng) };
        if ctx.rng.chance(1, 2) {
            cur = cur.mirror_v();
        }
        let Some(mut cur_n) = count_of(ctx, &cur) else { continue };
        let steps = iters / restarts;
        for i in 0..steps {
            let temp = 3.0 * (1.0 - i as f64 / steps as f64);
            let mut q = cur.clone();
            let w = q.white_to_move;
            match ctx.rng.below(6) {
                0 | 1 => {
                    // move one of the mover's men to an empty square
                    let own: Vec<Sq> = (0..64u8).filter(|&s| q.at(s) != EMPTY && is_white(q.at(s)) == w).collect();
                    let s = *ctx.rng.pick(&own);
                    let t = ctx.rng.below(64) as u8;
                    if q.at(t) == EMPTY && !(kind(q.at(s)) == b'P' && (rank_of(t) == 0 || rank_of(t) == 7)) {
                        q.sq[t as usize] = q.at(s);
                        q.sq[s as usize] = EMPTY;
                    }
                }
                2 => {
                    // change the kind of a non-king man (promote to a queen most of the time)
                    let own: Vec<Sq> = (0..64u8).filter(|&s| q.at(s) != EMPTY && is_white(q.at(s)) == w && kind(q.at(s)) != b'K').collect();
                    if !own.is_empty() {
                        let s = *ctx.rng.pick(&own);
                        let k = if ctx.rng.chance(2, 3) { b'Q' } else { *ctx.rng.pick(b"RBN") };
                        q.sq[s as usize] = man(w, k);
                    }
                }
                3 => {
                    if q.count(w) < 16 {
                        let t = ctx.rng.below(64) as u8;
                        if q.at(t) == EMPTY {
                            q.sq[t as usize] = man(w, *ctx.rng.pick(b"QQQRBN"));
                        }
                    }
                }
                4 => {
                    // move or remove an enemy man (blockers and capturable targets matter)
                    let opp: Vec<Sq> = (0..64u8).filter(|&s| q.at(s) != EMPTY && is_white(q.at(s)) != w).collect();
                    let s = *ctx.rng.pick(&opp);
                    if kind(q.at(s)) == b'K' || ctx.rng.chance(1, 2) {
                        let t = ctx.rng.below(64) as u8;
                        if q.at(t) == EMPTY && !(kind(q.at(s)) == b'P' && (rank_of(t) == 0 || rank_of(t) == 7)) {
                            q.sq[t as usize] = q.at(s);
                            q.sq[s as usize] = EMPTY;
                        }
                    } else {
                        q.sq[s as usize] = EMPTY;
                    }
                }
                _ => {
                    if q.count(!w) < 16 {
                        let t = ctx.rng.below(64) as u8;
                        if q.at(t) == EMPTY && rank_of(t) != 0 && rank_of(t) != 7 {
                            q.sq[t as usize] = man(!w, *ctx.rng.pick(b"PNB"));
                        }
                    }
                }
            }
            ctx.eval(1);
            let Some(n) = count_of(ctx, &q) else { continue };
            let delta = n as f64 - cur_n as f64;
            let accept = delta >= 0.0 || (temp > 0.05 && (ctx.rng.below(1000) as f64) < 1000.0 * (delta / temp).exp());
            if accept {
                cur = q;
                cur_n = n;
                if n > best_overall {
                    best_overall = n;
                    best_pos = mfen::to_xfen(&cur.normalized());
                }
            }
        }
        // the end point of each climb gets the full workload
        let fin = cur.normalized();
        if fin.is_valid() && !ctx.light() {
            crate::stream::offer(ctx, &fin, "mobility_search_result", &mut exercise);
        }
    }
    ctx.feature_max("max_semilegal_found_by_search", best_overall as u64);
    if !best_pos.is_empty() && ctx.notes.len() < 6 {
        ctx.notes.push(format!("mobility search best: {} semilegal moves at {}", best_overall, best_pos));
    }
}

pub fn run(ctx: &mut Ctx) {
    let miri = ctx.config == "miri";
    if ctx.shard == 0 {
        index_domains(ctx);
    }
    let n = ctx.budget(300_000, 4_000_000);
    let mut src = Sources::standard(n);
    src.family_each = (n / 12).max(2);
    src.three_man = n / 10;
    stream::run(ctx, &src, &mut exercise);
    // dense and queen-heavy positions (one per Miri shard: they take the interpreter a minute each)
    for _ in 0..(if miri { 1 } else { (n / 2).max(1) }) {
        let p = gen::fam_mobility(&mut ctx.rng);
        stream::offer(ctx, &p, "fam_mobility", &mut exercise);
    }
    let nover = ctx.budget(40_000, 400_000);
    overfull(ctx, if miri { 2 } else { nover.max(4) });
    let iters = ctx.budget(12_000_000, 200_000_000);
    mobility_search(ctx, if miri { iters.min(6) } else { iters });
    ctx.feature_max("list_capacity", crate::hooks::list_cap() as u64);
    let _ = to_move;
}

pub fn replay(ctx: &mut Ctx, case: &str) -> bool {
    if case == "index-domains" {
        index_domains(ctx);
        return true;
    }
    if let Some(x) = case.strip_prefix("raw:") {
        let Ok(p) = mfen::from_fen(x) else { return false };
        overfull_one(ctx, &p);
        return true;
    }
    replay_pos(ctx, case.split('|').next().unwrap_or(case), &mut exercise)
}
