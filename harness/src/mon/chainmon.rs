//! C13 / C14 / C17 — monitors over recorded MoveChain operation histories (see chainlog.rs).

use super::*;
use crate::chainlog::{self, Ev, Flavor, History};
use crate::gen;
use owlchess::types::OutcomeFilter;
use owlchess::{Color, DrawReason, Outcome, WinReason};

fn starts(ctx: &mut Ctx, flavor: Flavor) -> MPos {
    let fixed: Vec<MPos> = if ctx.light() { gen::fixed_positions_slice(ctx.shard * 5 + ctx.cases as usize, 3).into_iter().map(|x| x.1).collect() } else { gen::fixed_positions() };
    let mut s = match ctx.rng.below(10) {
        0..=2 => fixed[0].clone(),
        3..=6 => ctx.rng.pick(&fixed).clone(),
        7 => gen::fam_material(&mut ctx.rng),
        8 => gen::fam_enpassant(&mut ctx.rng),
        _ => gen::fam_castle(&mut ctx.rng),
    };
    if flavor == Flavor::Cycles {
        match ctx.rng.below(4) {
            0 => s.halfmove = 90 + ctx.rng.below(60) as u16,
            1 => s.halfmove = 140 + ctx.rng.below(12) as u16,
            _ => {}
        }
    } else if ctx.rng.chance(1, 6) {
        gen::random_counters(&mut ctx.rng, &mut s);
    }
    if ctx.rng.chance(1, 5) {
        s = s.mirror_v();
    }
    s.normalized()
}

fn one_history(ctx: &mut Ctx, flavor: Flavor, max_ops: usize) -> Option<(History, String, u64)> {
    if ctx.miri_full() {
        return None;
    }
    for _ in 0..20 {
        let s = starts(ctx, flavor);
        if !s.is_valid() {
            continue;
        }
        let seed = ctx.rng.next_u64();
        let case = format!("hist:{}|seed:{}|flavor:{}|ops:{}", mfen::to_xfen(&s), seed, if flavor == Flavor::Cycles { 1 } else { 0 }, max_ops);
        ctx.begin_case(&case);
        return exec(ctx, &s, seed, flavor, max_ops, &case).map(|h| (h, case, seed));
    }
    None
}

fn exec(ctx: &mut Ctx, s: &MPos, seed: u64, flavor: Flavor, max_ops: usize, case: &str) -> Option<History> {
    match crate::ctx::catch(|| chainlog::run_history(s, seed, flavor, max_ops)) {
        Ok(h) => h,
        Err(msg) => {
            ctx.violation(&format!("panic:history:{}", crate::ctx::panic_site(&msg)), case, &msg);
            None
        }
    }
}

fn summarize(ctx: &mut Ctx, h: &History) {
    let mut pushes_ok = 0;
    let mut refused = 0;
    let mut pops = 0;
    for e in &h.events {
        match &e.ev {
            Ev::Push { ok, how, .. } => {
                if *ok {
                    pushes_ok += 1;
                    ctx.feature(&format!("push_ok_{}", how));
                } else {
                    refused += 1;
                    ctx.feature(&format!("push_refused_{}", how));
                }
            }
            Ev::PushList { .. } => ctx.feature("push_uci_list"),
            Ev::Pop { ret } => {
                pops += 1;
                if ret.is_none() {
                    ctx.feature("pop_on_empty");
                }
            }
            Ev::Calc { .. } => ctx.feature("calc_outcome_events"),
            Ev::SetAuto { .. } => ctx.feature("set_auto_outcome_events"),
            _ => {}
        }
    }
    ctx.eval(h.events.len() as u64);
    ctx.feature_max("max_chain_len", h.events.iter().map(|e| e.obs.len).max().unwrap_or(0) as u64);
    if pushes_ok > 0 && (pops > 0 || refused > 0) {
        let mut key = mfen::to_xfen(&h.start).into_bytes();
        for e in &h.events {
            key.extend_from_slice(format!("{}:{}", e.obs.len, e.obs.last.hash).as_bytes());
        }
        ctx.nontrivial(&key);
    }
}

fn process(ctx: &mut Ctx, h: &History, case: &str, seed: u64) {
    summarize(ctx, h);
    if ctx.cases <= 2 && !h.events.is_empty() {
        let upto = h.events.len().min(12) - 1;
        ctx.sample_note(&format!("recorded event log of {} (first events): {}", case, chainlog::fmt_log(&h.events, upto)));
    }
    match ctx.prop.as_str() {
        "C13" => {
            let mut found: Vec<(String, usize, String)> = Vec::new();
            chainlog::check_c13(h, &mut |c, i, d| found.push((c.to_string(), i, d)));
            for (c, i, d) in found {
                ctx.violation(&c, case, &format!("event #{}: {} || log: {}", i, d, chainlog::fmt_log(&h.events, i)));
            }
            let r = crate::ctx::catch(|| chainlog::check_equality(ctx, h, case, seed));
            if let Err(msg) = r {
                ctx.violation(&format!("panic:equality:{}", crate::ctx::panic_site(&msg)), case, &msg);
            }
        }
        "C14" => {
            let mut found: Vec<(String, usize, String)> = Vec::new();
            let mut feats: Vec<String> = Vec::new();
            chainlog::check_c14(h, &mut |c, i, d| found.push((c.to_string(), i, d)), &mut |f| feats.push(f.to_string()));
            for f in feats {
                ctx.feature(&f);
            }
            for (c, i, d) in found {
                ctx.violation(&c, case, &format!("event #{}: {} || log: {}", i, d, chainlog::fmt_log(&h.events, i)));
            }
        }
        _ => {
            let r = crate::ctx::catch(|| chainlog::check_c17(ctx, h, case, seed));
            if let Err(msg) = r {
                ctx.violation(&format!("panic:walk_or_print:{}", crate::ctx::panic_site(&msg)), case, &msg);
            }
        }
    }
    crate::stream::poll_hooks(ctx, case);
}

/// Exhaustive: Outcome::passes / is_force over all outcome values x filters.
fn passes_table(ctx: &mut Ctx) {
    let wins = [WinReason::Checkmate, WinReason::TimeForfeit, WinReason::InvalidMove, WinReason::EngineError, WinReason::Resign, WinReason::Abandon, WinReason::Unknown];
    let draws = [DrawReason::Stalemate, DrawReason::InsufficientMaterial, DrawReason::Moves75, DrawReason::Repeat5, DrawReason::Moves50, DrawReason::Repeat3, DrawReason::Agreement, DrawReason::Unknown];
    let mut all: Vec<Outcome> = Vec::new();
    for side in [Color::White, Color::Black] {
        for r in wins {
            all.push(Outcome::Win { side, reason: r });
        }
    }
    for d in draws {
        all.push(Outcome::Draw(d));
    }
    for o in &all {
        let forced = matches!(o, Outcome::Win { reason: WinReason::Checkmate, .. } | Outcome::Draw(DrawReason::Stalemate));
        ctx.eval(4);
        if o.is_force() != forced {
            ctx.violation("is_force_table", &format!("outcome:{:?}", o), "");
        }
        for (fi, f) in [OutcomeFilter::Force, OutcomeFilter::Strict, OutcomeFilter::Relaxed].iter().enumerate() {
            if o.passes(*f) != chainlog::passes(o, fi as u8) {
                ctx.violation("passes_table", &format!("outcome:{:?}:{:?}", o, f), &format!("library {}", o.passes(*f)));
            }
        }
    }
    ctx.feature_n("passes_table_entries", (all.len() * 3) as u64);
    ctx.exhaustive_parts.push("Outcome::passes / is_force over all 22 outcome values x 3 filters".into());
}

/// The public repetition table on its own: random pushes and pops of boards against a multiset model.
fn repeat_table_direct(ctx: &mut Ctx) {
    use owlchess::chain::{HashRepeat, Repeat};
    use std::collections::HashMap;
    let fixed = gen::fixed_positions();
    let rounds = ctx.budget(2_000, 30_000);
    for _ in 0..rounds {
        // a small pool of positions, some differing only in counters (same key) or only in one feature
        let mut pool: Vec<MPos> = Vec::new();
        let base = ctx.rng.pick(&fixed).normalized();
        if !base.is_valid() {
            continue;
        }
        pool.push(base.clone());
        let mut c = base.clone();
        c.halfmove = c.halfmove.wrapping_add(5);
        c.fullmove = c.fullmove.wrapping_add(9);
        pool.push(c);
        let mut cur = base.clone();
        for _ in 0..4 {
            let lg = cur.legal_moves();
            if lg.is_empty() {
                break;
            }
            cur = cur.apply(ctx.rng.pick(&lg));
            pool.push(cur.clone());
        }
        let boards: Vec<(owlchess::Board, Vec<u8>)> = pool.iter().filter_map(|p| crate::conv::to_board(p).ok().map(|b| (b, p.rep_key()))).collect();
        if boards.is_empty() {
            continue;
        }
        let case = format!("repeat:{}", mfen::to_xfen(&base));
        ctx.begin_case(&case);
        let r = crate::ctx::catch(|| {
            let mut t = HashRepeat::default();
            let mut model: HashMap<Vec<u8>, usize> = HashMap::new();
            let mut stack: Vec<usize> = Vec::new();
            let mut bad: Option<String> = None;
            for step in 0..60 {
                if !stack.is_empty() && ctx.rng.chance(2, 5) {
                    let i = stack.pop().unwrap();
                    t.pop(&boards[i].0);
                    *model.get_mut(&boards[i].1).unwrap() -= 1;
                } else {
                    let i = ctx.rng.below(boards.len());
                    t.push(&boards[i].0);
                    *model.entry(boards[i].1.clone()).or_insert(0) += 1;
                    stack.push(i);
                }
                for (b, k) in &boards {
                    let want = *model.get(k).unwrap_or(&0);
                    if t.count(b) != want {
                        bad = Some(format!("step {}: count {} expected {} for {}", step, t.count(b), want, b.as_fen()));
                    }
                }
                if bad.is_some() {
                    break;
                }
            }
            bad
        });
        ctx.eval(60);
        match r {
            Ok(None) => {}
            Ok(Some(d)) => ctx.violation("repetition_table_count", &case, &d),
            Err(msg) => ctx.violation(&format!("panic:repeat_table:{}", crate::ctx::panic_site(&msg)), &case, &msg),
        }
    }
    ctx.feature_n("direct_repeat_table_rounds", rounds);
}

pub fn run(ctx: &mut Ctx) {
    if ctx.prop == "C14" && ctx.shard == 0 {
        passes_table(ctx);
    }
    if ctx.prop == "C14" && !ctx.light() {
        repeat_table_direct(ctx);
    }
    let n = match ctx.prop.as_str() {
        "C13" => ctx.budget(100_000, 1_200_000),
        "C14" => ctx.budget(100_000, 1_200_000),
        _ => ctx.budget(50_000, 600_000),
    };
    for i in 0..n {
        let flavor = match ctx.prop.as_str() {
            "C14" => if i % 5 == 0 { Flavor::Mixed } else { Flavor::Cycles },
            "C13" => if i % 4 == 0 { Flavor::Cycles } else { Flavor::Mixed },
            _ => if i % 3 == 0 { Flavor::Cycles } else { Flavor::Mixed },
        };
        let max_ops = if ctx.config == "miri" { 16 } else { match ctx.rng.below(4) {
            0 => 12,
            1 => 40,
            2 => 90,
            _ => 200,
        } };
        if let Some((h, case, seed)) = one_history(ctx, flavor, max_ops) {
            process(ctx, &h, &case, seed);
        }
    }
}

pub fn replay(ctx: &mut Ctx, case: &str) -> bool {
    if case.starts_with("outcome:") {
        passes_table(ctx);
        return true;
    }
    if case.starts_with("repeat:") {
        repeat_table_direct(ctx);
        return true;
    }
    let mut fen = None;
    let mut seed = None;
    let mut flavor = Flavor::Mixed;
    let mut ops = 200usize;
    for part in case.split('|') {
        if let Some(x) = part.strip_prefix("hist:") {
            fen = mfen::from_fen(x).ok();
        } else if let Some(x) = part.strip_prefix("seed:") {
            seed = x.parse::<u64>().ok();
        } else if let Some(x) = part.strip_prefix("flavor:") {
            flavor = if x == "1" { Flavor::Cycles } else { Flavor::Mixed };
        } else if let Some(x) = part.strip_prefix("ops:") {
            ops = x.parse().unwrap_or(200);
        }
    }
    let (Some(s), Some(seed)) = (fen, seed) else { return false };
    let base: String = case.split('|').take(4).collect::<Vec<_>>().join("|");
    ctx.begin_case(&base);
    if let Some(h) = exec(ctx, &s, seed, flavor, ops, &base) {
        process(ctx, &h, &base, seed);
    }
    true
}
