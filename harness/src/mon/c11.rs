//! C11 — validation accepts exactly the valid raw boards and normalises them consistently.

use super::*;
use crate::conv::{from_raw, full, full_diff, full_from_scratch, msq, to_raw};
use crate::gen;
use owlchess::board::ValidateError;
use owlchess::{Board, Color};

fn map_err(e: &ValidateError) -> Invalid {
    match e {
        ValidateError::InvalidEnpassant(c) => Invalid::InvalidEnpassant(msq(*c)),
        ValidateError::TooManyPieces(c) => Invalid::TooManyPieces(*c == Color::White),
        ValidateError::NoKing(c) => Invalid::NoKing(*c == Color::White),
        ValidateError::TooManyKings(c) => Invalid::TooManyKings(*c == Color::White),
        ValidateError::InvalidPawn(c) => Invalid::InvalidPawn(msq(*c)),
        ValidateError::OpponentKingAttacked => Invalid::OpponentKingAttacked,
    }
}

fn reason_name(i: &Invalid) -> String {
    match i {
        Invalid::InvalidEnpassant(_) => "reason_invalid_enpassant".into(),
        Invalid::TooManyPieces(w) => format!("reason_too_many_pieces_{}", if *w { "white" } else { "black" }),
        Invalid::NoKing(w) => format!("reason_no_king_{}", if *w { "white" } else { "black" }),
        Invalid::TooManyKings(w) => format!("reason_too_many_kings_{}", if *w { "white" } else { "black" }),
        Invalid::InvalidPawn(_) => "reason_invalid_pawn".into(),
        Invalid::OpponentKingAttacked => "reason_opponent_king_attacked".into(),
    }
}

pub fn check_raw(ctx: &mut Ctx, r: &MPos, tag: &str) {
    if ctx.miri_full() {
        return;
    }
    let case = format!("raw:{}", mfen::to_xfen(r));
    ctx.begin_case(&case);
    ctx.feature(&format!("src_{}", tag));
    ctx.eval(1);
    let reasons = r.invalid_reasons();
    let raw = to_raw(r);
    let Some(res) = ctx.guard("try_from", &case, || Board::try_from(raw)) else { return };
    match res {
        Err(e) => {
            ctx.feature("rejected");
            if reasons.is_empty() {
                ctx.violation("rejected_valid_board", &case, &format!("library says {:?}, but every condition of validity holds", e));
                return;
            }
            let m = map_err(&e);
            ctx.feature(&reason_name(&m));
            if reasons.len() > 1 {
                ctx.feature("several_reasons_apply");
            }
            if !reasons.contains(&m) {
                ctx.violation("reported_reason_does_not_hold", &case, &format!("library says {:?}; conditions that hold: {:?}", e, reasons));
            }
            ctx.nontrivial(&r.full_key());
        }
        Ok(b) => {
            ctx.feature("accepted");
            if !reasons.is_empty() {
                ctx.violation("accepted_invalid_board", &case, &format!("accepted although {:?}", reasons));
                return;
            }
            let got = from_raw(b.raw());
            let want = r.normalized();
            if got != want {
                ctx.violation("normalisation", &case, &format!("library result {} expected {}", mfen::to_xfen(&got), mfen::to_xfen(&want)));
            }
            if want.castle != r.castle {
                ctx.feature("rights_dropped");
                ctx.nontrivial(&r.full_key());
            }
            if want.ep != r.ep {
                ctx.feature("mark_dropped");
                ctx.nontrivial(&r.full_key());
            }
            if r.ep.is_some() && want.ep == r.ep {
                ctx.feature("mark_kept");
            }
            // derived state and idempotence
            ctx.eval(2);
            let f = full(&b);
            let s = full_from_scratch(b.raw());
            if f != s {
                ctx.violation("derived_state_after_validation", &case, &full_diff(&f, &s));
            }
            if let Some(again) = ctx.guard("revalidate", &case, || Board::try_from(*b.raw())) {
                match again {
                    Ok(b2) => {
                        if full(&b2) != f {
                            ctx.violation("validation_not_idempotent", &case, &full_diff(&full(&b2), &f));
                        }
                    }
                    Err(e) => ctx.violation("validation_not_idempotent", &case, &format!("re-validating the result fails: {:?}", e)),
                }
            }
        }
    }
    crate::stream::poll_hooks(ctx, &case);
}

/// One-mutation neighbours of a valid position.
fn neighbours(ctx: &mut Ctx, p: &MPos) {
    let mut rng = ctx.rng.clone();
    // add men until one side has 17
    for white in [true, false] {
        let mut q = p.clone();
        while q.count(white) <= 16 {
            let e: Vec<Sq> = (0..64u8).filter(|&s| q.at(s) == EMPTY && rank_of(s) != 0 && rank_of(s) != 7).collect();
            if e.is_empty() {
                break;
            }
            q.sq[*rng.pick(&e) as usize] = man(white, *rng.pick(b"NBRQP"));
            if q.count(white) >= 16 {
                check_raw(ctx, &q, "nb_many_men");
            }
        }
    }
    // kings: delete, duplicate
    for white in [true, false] {
        let mut q = p.clone();
        if let Some(k) = q.king_sq(white) {
            q.sq[k as usize] = EMPTY;
            check_raw(ctx, &q, "nb_no_king");
        }
        let mut q = p.clone();
        let e: Vec<Sq> = (0..64u8).filter(|&s| q.at(s) == EMPTY).collect();
        if !e.is_empty() {
            q.sq[*rng.pick(&e) as usize] = man(white, b'K');
            check_raw(ctx, &q, "nb_two_kings");
        }
    }
    // one side with two kings and the other with none (the total number of kings stays two)
    for white in [true, false] {
        let mut q = p.clone();
        if let Some(k) = q.king_sq(!white) {
            q.sq[k as usize] = man(white, b'K');
            check_raw(ctx, &q, "nb_kings_one_sided");
        }
    }
    // pawn on a back rank
    for _ in 0..2 {
        let mut q = p.clone();
        let s = sq(rng.below(8) as u8, if rng.chance(1, 2) { 0 } else { 7 });
        if kind(q.at(s)) != b'K' {
            q.sq[s as usize] = man(rng.chance(1, 2), b'P');
            check_raw(ctx, &q, "nb_back_rank_pawn");
        }
    }
    // the mark on every square
    for s in 0..64u8 {
        let mut q = p.clone();
        q.ep = Some(s);
        check_raw(ctx, &q, "nb_mark_anywhere");
    }
    // flip the side, every rights set
    let mut q = p.clone();
    q.white_to_move = !q.white_to_move;
    q.ep = None;
    check_raw(ctx, &q, "nb_side_flipped");
    for bits in 0..16 {
        let mut q = p.clone();
        q.castle = [bits & 1 != 0, bits & 2 != 0, bits & 4 != 0, bits & 8 != 0];
        check_raw(ctx, &q, "nb_rights_set");
    }
    // occupy the square behind a marked pawn / replace the marked pawn
    if let Some(m) = p.ep {
        let dr: i8 = if p.white_to_move { 1 } else { -1 };
        if let Some(bh) = step(m, 0, dr) {
            let mut q = p.clone();
            q.sq[bh as usize] = man(rng.chance(1, 2), *rng.pick(b"NBRQ"));
            check_raw(ctx, &q, "nb_behind_mark_occupied");
        }
        let mut q = p.clone();
        q.sq[m as usize] = man(rng.chance(1, 2), *rng.pick(b"NBRQP"));
        check_raw(ctx, &q, "nb_marked_pawn_replaced");
        let mut q = p.clone();
        q.sq[m as usize] = EMPTY;
        check_raw(ctx, &q, "nb_marked_pawn_removed");
    }
    // move king / rook off the home square while keeping the rights
    for (home, _) in [(4u8, 0), (0, 0), (7, 0), (60, 0), (56, 0), (63, 0)] {
        if p.at(home) != EMPTY {
            let mut q = p.clone();
            let e: Vec<Sq> = (0..64u8).filter(|&s| q.at(s) == EMPTY && rank_of(s) != 0 && rank_of(s) != 7).collect();
            if !e.is_empty() {
                let t = *rng.pick(&e);
                q.sq[t as usize] = q.at(home);
                q.sq[home as usize] = EMPTY;
                check_raw(ctx, &q, "nb_home_piece_moved");
            }
        }
    }
    ctx.rng = rng;
}

/// Exhaustive: a pawn of either colour on each of the 16 back-rank squares of a few valid positions.
fn edge_pawns(ctx: &mut Ctx) {
    for base in ["8/2p5/4k3/8/8/4K3/2P5/8 w - - 0 1", "8/2p5/4k3/8/8/4K3/2P5/8 b - - 0 1", "4k3/8/8/8/8/8/8/4K3 w - - 0 1"] {
        let p = mfen::from_fen(base).unwrap();
        for r in [0u8, 7] {
            for f in 0..8u8 {
                for pawn in [b'P', b'p'] {
                    let mut q = p.clone();
                    if kind(q.at(sq(f, r))) == b'K' {
                        continue;
                    }
                    q.sq[sq(f, r) as usize] = pawn;
                    check_raw(ctx, &q, "exh_edge_pawns");
                }
            }
        }
    }
    ctx.exhaustive_parts.push("a pawn of either colour on each of the 16 back-rank squares".into());
}

pub fn run(ctx: &mut Ctx) {
    let heavy = ctx.config != "miri";
    if ctx.shard == 0 {
        edge_pawns(ctx);
    }
    // fixed corners and their neighbours
    let fixed: Vec<MPos> = if heavy { gen::fixed_positions() } else { gen::fixed_positions_slice(ctx.shard * 9, 16).into_iter().map(|x| x.1).collect() };
    for (i, p) in fixed.iter().enumerate() {
        if ctx.mine(i as u64) || !heavy {
            check_raw(ctx, p, "fixed");
            if heavy || i % 8 == 0 {
                neighbours(ctx, &p.normalized());
            }
        }
    }
    let n = ctx.budget(6_000_000, 80_000_000);
    // scattered raw boards (valid and invalid) and family positions
    for i in 0..n {
        let p = match i % 8 {
            0 => gen::fam_enpassant(&mut ctx.rng),
            1 => gen::fam_castle(&mut ctx.rng),
            2 => gen::fam_check(&mut ctx.rng),
            _ => gen::scattered(&mut ctx.rng),
        };
        check_raw(ctx, &p, "scattered");
        if i % 64 == 0 && p.normalized().is_valid() {
            neighbours(ctx, &p.normalized());
        }
    }
    // uniformly random cells: rejection paths with several reasons at once
    for _ in 0..n / 8 {
        let mut p = MPos::empty();
        let dens = 1 + ctx.rng.below(20);
        for s in 0..64usize {
            if ctx.rng.below(40) < dens {
                p.sq[s] = *ctx.rng.pick(&MEN);
            }
        }
        p.white_to_move = ctx.rng.chance(1, 2);
        let bits = ctx.rng.below(16);
        p.castle = [bits & 1 != 0, bits & 2 != 0, bits & 4 != 0, bits & 8 != 0];
        if ctx.rng.chance(1, 3) {
            p.ep = Some(ctx.rng.below(64) as u8);
        }
        gen::random_counters(&mut ctx.rng, &mut p);
        check_raw(ctx, &p, "random_cells");
    }
    // three-man space x rights x a few marks
    let tm = if ctx.tier == crate::ctx::Tier::Thorough && heavy { gen::THREE_MAN_TOTAL / 4 } else { n / 4 };
    for _ in 0..tm / ctx.nshards.max(1) as u64 {
        let idx = ctx.rng.next_u64() % gen::THREE_MAN_TOTAL;
        if let Some(mut p) = gen::three_man(idx) {
            let bits = ctx.rng.below(16);
            p.castle = [bits & 1 != 0, bits & 2 != 0, bits & 4 != 0, bits & 8 != 0];
            if ctx.rng.chance(1, 3) {
                p.ep = Some(ctx.rng.below(64) as u8);
            }
            check_raw(ctx, &p, "three_man_rights_marks");
        }
    }
}

pub fn replay(ctx: &mut Ctx, case: &str) -> bool {
    let Some(x) = case.strip_prefix("raw:") else { return false };
    let Ok(p) = mfen::from_fen(x) else { return false };
    check_raw(ctx, &p, "replay");
    true
}
