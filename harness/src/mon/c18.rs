//! C18 — White/Black and left/right symmetry (metamorphic; no reference model in the verdict).

use super::*;
use crate::conv::{color, coord, to_raw};
use crate::stream::Sources;
use owlchess::movegen::{self, legal, semilegal};
use owlchess::{Board, Outcome};

fn swap_outcome(o: Option<Outcome>) -> Option<Outcome> {
    match o {
        Some(Outcome::Win { side, reason }) => Some(Outcome::Win { side: side.inv(), reason }),
        x => x,
    }
}

fn compare(ctx: &mut Ctx, case: &str, name: &str, b: &Board, img: &MPos, map: fn(&MMove) -> MMove, swap_winner: bool, flip_sq: fn(Sq) -> Sq, swap_colors: bool) {
    let raw = to_raw(img);
    ctx.eval(1);
    let Some(r) = ctx.guard(&format!("{}_try_from", name), case, || Board::try_from(raw)) else { return };
    let ib = match r {
        Ok(ib) => ib,
        Err(e) => {
            ctx.violation(&format!("{}_image_invalid", name), case, &format!("mirror image rejected: {:?}", e));
            return;
        }
    };
    if crate::conv::from_raw(ib.raw()) != *img {
        ctx.violation(&format!("{}_image_normalised_differently", name), case, &format!("image {} became {}", mfen::to_xfen(img), ib.as_fen()));
        return;
    }
    let Some((l1, l2, s1, s2)) = ctx.guard(&format!("{}_movegen", name), case, || (legal::gen_all(b), legal::gen_all(&ib), semilegal::gen_all(b), semilegal::gen_all(&ib))) else { return };
    ctx.eval(2);
    let (Some(l1), Some(l2), Some(s1), Some(s2)) = (lib_moves(&l1), lib_moves(&l2), lib_moves(&s1), lib_moves(&s2)) else {
        ctx.violation(&format!("{}_null_generated", name), case, "null move generated");
        return;
    };
    let img_l1 = sorted(l1.iter().map(map).collect());
    if let Some(d) = diff_moves(&l2, &img_l1) {
        ctx.violation(&format!("{}_legal_moves", name), case, &format!("image position vs mirrored moves: {}", d));
    }
    let img_s1 = sorted(s1.iter().map(map).collect());
    if let Some(d) = diff_moves(&s2, &img_s1) {
        ctx.violation(&format!("{}_semilegal_moves", name), case, &format!("image position vs mirrored moves: {}", d));
    }
    ctx.eval(3);
    if let Some((c1, c2, h1, h2, o1, o2)) = ctx.guard(&format!("{}_status", name), case, || (b.is_check(), ib.is_check(), b.has_legal_moves(), ib.has_legal_moves(), b.calc_outcome(), ib.calc_outcome())) {
        if c1 != c2 {
            ctx.violation(&format!("{}_is_check", name), case, &format!("{} vs image {}", c1, c2));
        }
        if h1 != h2 {
            ctx.violation(&format!("{}_has_legal_moves", name), case, &format!("{} vs image {}", h1, h2));
        }
        let want = if swap_winner { swap_outcome(o1) } else { o1 };
        if o2 != want {
            ctx.violation(&format!("{}_outcome", name), case, &format!("{:?} vs image {:?}", o1, o2));
        }
    }
    // attack maps
    let mut bad = None;
    for s in 0..64u8 {
        for w in [true, false] {
            let a1 = movegen::is_cell_attacked(b, coord(s), color(w));
            let a2 = movegen::is_cell_attacked(&ib, coord(flip_sq(s)), color(if swap_colors { !w } else { w }));
            if a1 != a2 {
                bad = Some((s, w));
            }
        }
    }
    ctx.eval(128);
    if let Some((s, w)) = bad {
        ctx.violation(&format!("{}_attack_map", name), case, &format!("square {} by {}", sq_name(s), if w { "white" } else { "black" }));
    }
}

pub fn check_pos(ctx: &mut Ctx, mp: &MPos, b: &Board) {
    let case = format!("pos:{}", mfen::to_xfen(mp));
    let v = mp.mirror_v();
    compare(ctx, &case, "vmirror", b, &v, mirror_v_move, true, |s| sq(file_of(s), 7 - rank_of(s)), true);
    ctx.feature("vmirror_pairs");
    let no_rights = !mp.castle.iter().any(|&c| c);
    if no_rights {
        let h = mp.mirror_h();
        compare(ctx, &case, "hmirror", b, &h, mirror_h_move, false, |s| sq(7 - file_of(s), rank_of(s)), false);
        ctx.feature("hmirror_pairs");
    }
    let special = mp.pseudo_moves().iter().any(|m| m.kind != MKind::Simple);
    if v != *mp && (special || mp.in_check()) {
        ctx.nontrivial(&mp.rep_key());
    }
    if special {
        ctx.feature("pos_with_special_move");
    }
    if !mp.white_to_move {
        ctx.feature("black_to_move");
    }
    if mp.ep.is_some() {
        ctx.feature("with_mark");
    }
    if !no_rights {
        ctx.feature("with_castling_rights");
    }
}

pub fn run(ctx: &mut Ctx) {
    let n = ctx.budget(2_000_000, 25_000_000);
    let mut src = Sources::standard(n);
    src.mirror_every = 0;
    src.three_man = if ctx.tier == crate::ctx::Tier::Thorough && ctx.config != "miri" { u64::MAX } else { n / 5 };
    stream::run(ctx, &src, &mut check_pos);
}

pub fn replay(ctx: &mut Ctx, case: &str) -> bool {
    replay_pos(ctx, case.split('|').next().unwrap_or(case), &mut check_pos)
}
