//! C20 — core value types convert losslessly and bitboards behave as sets of squares.
//! Mostly exhaustive over the finite types; random 64-bit operands for the bitboard algebra.

use super::*;
use crate::gentext::{self, SYMBOLS};
use owlchess_base::bitboard::Bitboard;
use owlchess_base::bitboard_consts as bc;
use owlchess_base::geometry as geo;
use owlchess_base::types::{CastlingRights, CastlingSide, Cell, Color, Coord, File, Piece, Rank};
use std::str::FromStr;

fn v(ctx: &mut Ctx, clause: &str, case: &str, detail: String) {
    ctx.violation(clause, case, &detail);
}

/// `f` must panic exactly when `should_panic`.
fn expect_panic<T>(ctx: &mut Ctx, clause: &str, case: &str, should_panic: bool, f: impl FnOnce() -> T) -> Option<T> {
    ctx.eval(1);
    match crate::ctx::catch(f) {
        Ok(x) => {
            if should_panic {
                v(ctx, clause, case, "accepted an out-of-range index".into());
            }
            Some(x)
        }
        Err(msg) => {
            if !should_panic {
                v(ctx, clause, case, format!("panicked on an in-range index: {}", msg));
            }
            None
        }
    }
}

fn finite_types(ctx: &mut Ctx) {
    ctx.begin_case("finite-types");
    let light = ctx.light();
    // File
    for i in 0..8usize {
        let f = File::from_index(i);
        let ch = (b'a' + i as u8) as char;
        if f.index() != i || f.as_char() != ch || f.to_string() != ch.to_string() || File::from_char(ch) != Some(f) {
            v(ctx, "file_conversions", &format!("file:{}", i), "index/char round trip".into());
        }
        ctx.eval(4);
    }
    if File::iter().map(|f| f.index()).collect::<Vec<_>>() != (0..8).collect::<Vec<_>>() {
        v(ctx, "file_iter", "file:iter", "".into());
    }
    // Rank: index 0 is rank 8
    for i in 0..8usize {
        let r = Rank::from_index(i);
        let ch = (b'8' - i as u8) as char;
        if r.index() != i || r.as_char() != ch || r.to_string() != ch.to_string() || Rank::from_char(ch) != Some(r) {
            v(ctx, "rank_conversions", &format!("rank:{}", i), "index/char round trip".into());
        }
        ctx.eval(4);
    }
    if Rank::iter().map(|f| f.index()).collect::<Vec<_>>() != (0..8).collect::<Vec<_>>() {
        v(ctx, "rank_iter", "rank:iter", "".into());
    }
    // Piece, Color, Cell
    let pieces = [Piece::Pawn, Piece::King, Piece::Knight, Piece::Bishop, Piece::Rook, Piece::Queen];
    for (i, p) in pieces.iter().enumerate() {
        if p.index() != i || Piece::from_index(i) != *p {
            v(ctx, "piece_conversions", &format!("piece:{}", i), "".into());
        }
        ctx.eval(2);
    }
    if Piece::iter().collect::<Vec<_>>() != pieces.to_vec() || Piece::COUNT != 6 {
        v(ctx, "piece_iter", "piece:iter", "".into());
    }
    if Color::White.inv() != Color::Black || Color::Black.inv() != Color::White || Color::White.as_char() != 'w' || Color::Black.as_char() != 'b' {
        v(ctx, "color_conversions", "color", "".into());
    }
    let letters = ".PKNBRQpknbrq";
    if Cell::COUNT != 13 || Cell::iter().count() != 13 {
        v(ctx, "cell_count", "cell:count", "".into());
    }
    for (i, ch) in letters.chars().enumerate() {
        let c = Cell::from_index(i);
        ctx.eval(8);
        let ok = c.index() == i
            && c.as_char() == ch
            && c.to_string() == ch.to_string()
            && Cell::from_char(ch) == Some(c)
            && Cell::from_str(&ch.to_string()) == Ok(c)
            && c.is_free() == (i == 0)
            && c.is_occupied() == (i != 0)
            && (c == Cell::EMPTY) == (i == 0);
        if !ok {
            v(ctx, "cell_conversions", &format!("cell:{}", i), "index/char/string round trip".into());
        }
        if i == 0 {
            if c.color().is_some() || c.piece().is_some() {
                v(ctx, "cell_parts", "cell:0", "empty cell has a colour or a piece".into());
            }
        } else {
            let col = if i <= 6 { Color::White } else { Color::Black };
            let pc = pieces[(i - 1) % 6];
            if c.color() != Some(col) || c.piece() != Some(pc) || Cell::from_parts(col, pc) != c {
                v(ctx, "cell_parts", &format!("cell:{}", i), "from_parts/color/piece".into());
            }
            if ch.is_ascii_uppercase() != (col == Color::White) {
                v(ctx, "cell_parts", &format!("cell:{}", i), "letter case vs colour".into());
            }
        }
    }
    // Coord
    for i in 0..64usize {
        let c = Coord::from_index(i);
        let f = File::from_index(i % 8);
        let r = Rank::from_index(i / 8);
        let name = format!("{}{}", f.as_char(), r.as_char());
        ctx.eval(8);
        if c.index() != i || c.file() != f || c.rank() != r || Coord::from_parts(f, r) != c || c.to_string() != name || Coord::from_str(&name) != Ok(c) {
            v(ctx, "coord_conversions", &format!("coord:{}", i), "index/parts/text round trip".into());
        }
        // geometry: model square
        let ms = crate::conv::msq(c);
        if sq_name(ms) != name {
            v(ctx, "coord_name", &format!("coord:{}", i), format!("{} vs {}", sq_name(ms), name));
        }
        let fr = c.flipped_rank();
        let ff = c.flipped_file();
        if fr.file() != f || fr.rank().index() != 7 - r.index() || ff.rank() != r || ff.file().index() != 7 - f.index() || fr.flipped_rank() != c || ff.flipped_file() != c {
            v(ctx, "coord_flips", &format!("coord:{}", i), "".into());
        }
        // diagonals: constant along the a1-h8 direction / a8-h1 direction
        let want_diag = file_of(ms) as isize - rank_of(ms) as isize + 7;
        let want_anti = file_of(ms) as usize + rank_of(ms) as usize;
        if c.diag() as isize != want_diag || c.antidiag() != want_anti {
            v(ctx, "coord_diagonals", &format!("coord:{}", i), format!("diag {} antidiag {}", c.diag(), c.antidiag()));
        }
        for delta in (-70isize..=70).filter(|d| !light || d % 7 == 0 || d.abs() > 60) {
            let t = i as isize + delta;
            let inside = (0..64).contains(&t);
            if let Some(x) = expect_panic(ctx, "coord_add", &format!("coord:{}:add:{}", i, delta), !inside, || c.add(delta)) {
                if x.index() as isize != t {
                    v(ctx, "coord_add", &format!("coord:{}:add:{}", i, delta), format!("{}", x.index()));
                }
            }
        }
        for df in (-9isize..=9).filter(|d| !light || d % 3 == 0) {
            for dr in -9isize..=9 {
                ctx.eval(1);
                let nf = f.index() as isize + df;
                let nr = r.index() as isize + dr;
                let want = if (0..8).contains(&nf) && (0..8).contains(&nr) { Some(Coord::from_parts(File::from_index(nf as usize), Rank::from_index(nr as usize))) } else { None };
                if c.shift(df, dr) != want {
                    v(ctx, "coord_shift", &format!("coord:{}:shift:{}:{}", i, df, dr), format!("{:?}", c.shift(df, dr)));
                }
            }
        }
    }
    // extreme deltas: shift must answer None, add must panic
    let extremes = [isize::MIN, isize::MIN + 1, isize::MAX, isize::MAX - 1, 1 << 60, -(1 << 60), (1 << 61) + 1, -(1 << 61) - 1, 1 << 62, -(1 << 62), 64, -64, 1000, -1000, 8, -8];
    for i in [0usize, 7, 27, 36, 56, 63] {
        let c = Coord::from_index(i);
        for &a in &extremes {
            for &b in &[0isize, 1, -1, a] {
                for (df, dr) in [(a, b), (b, a)] {
                    ctx.eval(1);
                    let nf = (c.file().index() as i128) + df as i128;
                    let nr = (c.rank().index() as i128) + dr as i128;
                    let want = if (0..8).contains(&nf) && (0..8).contains(&nr) { Some(Coord::from_parts(File::from_index(nf as usize), Rank::from_index(nr as usize))) } else { None };
                    if c.shift(df, dr) != want {
                        v(ctx, "coord_shift", &format!("coord:{}:shift:{}:{}", i, df, dr), format!("{:?}", c.shift(df, dr)));
                    }
                }
            }
            let t = i as i128 + a as i128;
            let inside = (0..64).contains(&t);
            expect_panic(ctx, "coord_add", &format!("coord:{}:add:{}", i, a), !inside, || c.add(a));
        }
    }
    if Coord::iter().map(|c| c.index()).collect::<Vec<_>>() != (0..64).collect::<Vec<_>>() {
        v(ctx, "coord_iter", "coord:iter", "".into());
    }
    // checked constructors reject exactly the out-of-range indices
    for i in (0..=300usize).chain([1 << 16, 1 << 32, usize::MAX - 1, usize::MAX]) {
        expect_panic(ctx, "file_from_index_range", &format!("file:from_index:{}", i), i >= 8, || File::from_index(i));
        expect_panic(ctx, "rank_from_index_range", &format!("rank:from_index:{}", i), i >= 8, || Rank::from_index(i));
        expect_panic(ctx, "coord_from_index_range", &format!("coord:from_index:{}", i), i >= 64, || Coord::from_index(i));
        expect_panic(ctx, "piece_from_index_range", &format!("piece:from_index:{}", i), i >= 6, || Piece::from_index(i));
        expect_panic(ctx, "cell_from_index_range", &format!("cell:from_index:{}", i), i >= 13, || Cell::from_index(i));
        expect_panic(ctx, "castling_from_index_range", &format!("castling:from_index:{}", i), i >= 16, || CastlingRights::from_index(i));
    }
    // from_char over a large slice of the char space
    let mut n = 0u64;
    let top = if ctx.light() { 0x200 } else { 0x3000 };
    for u in (0u32..top).chain([0xFF41, 0x1F600, 0x10FFFF, 0xE000]) {
        let Some(ch) = char::from_u32(u) else { continue };
        n += 4;
        let wf = if ('a'..='h').contains(&ch) { Some(File::from_index(ch as usize - 'a' as usize)) } else { None };
        let wr = if ('1'..='8').contains(&ch) { Some(Rank::from_index('8' as usize - ch as usize)) } else { None };
        let wc = letters.find(ch).filter(|_| ch.is_ascii()).map(Cell::from_index);
        let wcol = match ch {
            'w' => Some(Color::White),
            'b' => Some(Color::Black),
            _ => None,
        };
        if File::from_char(ch) != wf || Rank::from_char(ch) != wr || Cell::from_char(ch) != wc || Color::from_char(ch) != wcol {
            v(ctx, "from_char_accepts_exactly_the_documented_characters", &format!("char:{:x}", u), format!("{:?}", ch));
        }
    }
    ctx.eval(n);
    // CastlingRights against a 4-bool model
    for i in 0..16usize {
        let c = CastlingRights::from_index(i);
        let mut model = [false; 4]; // (White,Queen) (White,King) (Black,Queen) (Black,King) by index bit
        for (b, m) in model.iter_mut().enumerate() {
            *m = i >> b & 1 != 0;
        }
        let slots = [(Color::White, CastlingSide::Queen), (Color::White, CastlingSide::King), (Color::Black, CastlingSide::Queen), (Color::Black, CastlingSide::King)];
        ctx.eval(20);
        if c.index() != i {
            v(ctx, "castling_index", &format!("castling:{}", i), "".into());
        }
        // which bit is which right is pinned by the text form, not by the index: read it back
        let text = c.to_string();
        let mut want_text = String::new();
        for (ch, col, side) in [('K', Color::White, CastlingSide::King), ('Q', Color::White, CastlingSide::Queen), ('k', Color::Black, CastlingSide::King), ('q', Color::Black, CastlingSide::Queen)] {
            if c.has(col, side) {
                want_text.push(ch);
            }
        }
        if want_text.is_empty() {
            want_text.push('-');
        }
        if text != want_text || CastlingRights::from_str(&text) != Ok(c) {
            v(ctx, "castling_text", &format!("castling:{}", i), format!("{:?} vs {:?}", text, want_text));
        }
        let n_has = slots.iter().filter(|(col, s)| c.has(*col, *s)).count();
        if n_has != i.count_ones() as usize {
            v(ctx, "castling_has", &format!("castling:{}", i), "number of rights differs from number of index bits".into());
        }
        for (col, side) in slots {
            let w = c.with(col, side);
            let wo = c.without(col, side);
            let mut s1 = c;
            s1.set(col, side);
            let mut s2 = c;
            s2.unset(col, side);
            let others_same = |x: CastlingRights| slots.iter().all(|(c2, sd2)| (*c2 == col && *sd2 == side) || x.has(*c2, *sd2) == c.has(*c2, *sd2));
            if !w.has(col, side) || wo.has(col, side) || !others_same(w) || !others_same(wo) || s1 != w || s2 != wo {
                v(ctx, "castling_with_without", &format!("castling:{}:{:?}:{:?}", i, col, side), "".into());
            }
        }
        for col in [Color::White, Color::Black] {
            let want = c.has(col, CastlingSide::King) || c.has(col, CastlingSide::Queen);
            let mut u = c;
            u.unset_color(col);
            if c.has_color(col) != want || u.has_color(col) || u.has(col.inv(), CastlingSide::King) != c.has(col.inv(), CastlingSide::King) || u.has(col.inv(), CastlingSide::Queen) != c.has(col.inv(), CastlingSide::Queen) {
                v(ctx, "castling_color_ops", &format!("castling:{}:{:?}", i, col), "".into());
            }
        }
    }
    if CastlingRights::EMPTY.index() != 0 || CastlingRights::FULL.index() != 15 || CastlingRights::FULL.to_string() != "KQkq" {
        v(ctx, "castling_consts", "castling:consts", "".into());
    }
    ctx.exhaustive_parts.push("every File, Rank, Coord, Piece, Cell, Color, CastlingRights value through index/char/text and back; from_index on 0..=300 and huge values; from_char on U+0000..U+2FFF; Coord::add on all deltas -70..70; Coord::shift on all 19x19 deltas".into());
}

fn text_parsers(ctx: &mut Ctx) {
    ctx.begin_case("short-strings");
    let mut n = 0u64;
    let mut all: Vec<String> = Vec::new();
    let maxlen = if ctx.config == "miri" { 2 } else { 3 };
    gentext::enumerate(&SYMBOLS, maxlen, &mut |s| all.push(s.to_string()));
    // 4-letter castling strings too
    gentext::enumerate_exact(&["K", "Q", "k", "q", "-"], 4, &mut |s| all.push(s.to_string()));
    gentext::enumerate_exact(&["K", "Q", "k", "q"], 5, &mut |s| all.push(s.to_string()));
    for (i, s) in all.iter().enumerate() {
        if !ctx.mine(i as u64) {
            continue;
        }
        n += 4;
        let b = s.as_bytes();
        let want_coord = b.len() == 2 && (b'a'..=b'h').contains(&b[0]) && (b'1'..=b'8').contains(&b[1]);
        let want_color = s == "w" || s == "b";
        let want_cell = b.len() == 1 && b".PKNBRQpknbrq".contains(&b[0]);
        let want_castling = s == "-" || (!s.is_empty() && b.iter().all(|c| b"KQkq".contains(c)) && {
            let mut seen = [false; 128];
            b.iter().all(|&c| !std::mem::replace(&mut seen[c as usize], true))
        });
        let r = crate::ctx::catch(|| (Coord::from_str(s).is_ok(), Color::from_str(s).is_ok(), Cell::from_str(s).is_ok(), CastlingRights::from_str(s).is_ok()));
        match r {
            Err(msg) => v(ctx, "base_parser_panics", &format!("text:{}", crate::ctx::hex(b)), msg),
            Ok(got) => {
                if got != (want_coord, want_color, want_cell, want_castling) {
                    v(ctx, "base_parsers_accept_exactly_the_documented_spellings", &format!("text:{}", crate::ctx::hex(b)), format!("{:?}: coord/color/cell/castling accepted {:?}, documented {:?}", crate::ctx::preview(s), got, (want_coord, want_color, want_cell, want_castling)));
                }
                if got.3 {
                    let c = CastlingRights::from_str(s).unwrap();
                    for (ch, col, side) in [(b'K', Color::White, CastlingSide::King), (b'Q', Color::White, CastlingSide::Queen), (b'k', Color::Black, CastlingSide::King), (b'q', Color::Black, CastlingSide::Queen)] {
                        if c.has(col, side) != b.contains(&ch) {
                            v(ctx, "castling_parse_meaning", &format!("text:{}", crate::ctx::hex(b)), "letters and rights differ".into());
                        }
                    }
                }
            }
        }
        ctx.nontrivial(b);
    }
    ctx.eval(n);
    ctx.feature_n("short_strings_through_base_parsers", n / 4);
    if ctx.shard == 0 {
        ctx.exhaustive_parts.push("Coord/Color/Cell/CastlingRights FromStr on every string of <= 3 symbols over a 45-symbol set and all 4-5 letter castling strings".into());
    }
}

fn constants(ctx: &mut Ctx) {
    ctx.begin_case("constants");
    let set_of = |pred: &dyn Fn(Sq) -> bool| -> Bitboard {
        let mut b = Bitboard::EMPTY;
        for s in 0..64u8 {
            if pred(s) {
                b = b.with(crate::conv::coord(s));
            }
        }
        b
    };
    for i in 0..8usize {
        ctx.eval(2);
        let r = Rank::from_index(i);
        let f = File::from_index(i);
        if bc::rank(r) != set_of(&|s| rank_of(s) as usize == 7 - i) {
            v(ctx, "rank_constant", &format!("const:rank:{}", i), format!("{}", bc::rank(r)));
        }
        if bc::file(f) != set_of(&|s| file_of(s) as usize == i) {
            v(ctx, "file_constant", &format!("const:file:{}", i), format!("{}", bc::file(f)));
        }
    }
    for i in 0..15usize {
        ctx.eval(2);
        if bc::DIAG[i] != set_of(&|s| crate::conv::coord(s).diag() == i) {
            v(ctx, "diag_constant", &format!("const:diag:{}", i), format!("{}", bc::DIAG[i]));
        }
        if bc::ANTIDIAG[i] != set_of(&|s| crate::conv::coord(s).antidiag() == i) {
            v(ctx, "antidiag_constant", &format!("const:antidiag:{}", i), format!("{}", bc::ANTIDIAG[i]));
        }
    }
    ctx.eval(3);
    if bc::LIGHT_SQUARES != set_of(&|s| is_light(s)) {
        v(ctx, "light_squares_constant", "const:light", format!("{}", bc::LIGHT_SQUARES));
    }
    if bc::DARK_SQUARES != set_of(&|s| !is_light(s)) {
        v(ctx, "dark_squares_constant", "const:dark", format!("{}", bc::DARK_SQUARES));
    }
    if (bc::LIGHT_SQUARES | bc::DARK_SQUARES) != Bitboard::FULL || (bc::LIGHT_SQUARES & bc::DARK_SQUARES) != Bitboard::EMPTY {
        v(ctx, "light_dark_partition", "const:partition", "".into());
    }
    // geometry per colour against the rules
    let rk = |n: usize| Rank::from_index(8 - n); // rank number 1..8
    let g = [
        ("castling_rank", geo::castling_rank(Color::White) == rk(1) && geo::castling_rank(Color::Black) == rk(8)),
        ("double_move_src_rank", geo::double_move_src_rank(Color::White) == rk(2) && geo::double_move_src_rank(Color::Black) == rk(7)),
        ("double_move_dst_rank", geo::double_move_dst_rank(Color::White) == rk(4) && geo::double_move_dst_rank(Color::Black) == rk(5)),
        ("promote_src_rank", geo::promote_src_rank(Color::White) == rk(7) && geo::promote_src_rank(Color::Black) == rk(2)),
        ("promote_dst_rank", geo::promote_dst_rank(Color::White) == rk(8) && geo::promote_dst_rank(Color::Black) == rk(1)),
        ("enpassant_src_rank", geo::enpassant_src_rank(Color::White) == rk(5) && geo::enpassant_src_rank(Color::Black) == rk(4)),
        ("enpassant_dst_rank", geo::enpassant_dst_rank(Color::White) == rk(6) && geo::enpassant_dst_rank(Color::Black) == rk(3)),
    ];
    for (name, ok) in g {
        ctx.eval(1);
        if !ok {
            v(ctx, "geometry_rank_constant", &format!("const:geometry:{}", name), "".into());
        }
    }
    // deltas: one step forward / forward-left / forward-right from e4 in index terms
    let e4 = crate::conv::coord(sq(4, 3));
    for (col, fwd) in [(Color::White, 1i8), (Color::Black, -1i8)] {
        ctx.eval(3);
        let f = e4.add(geo::pawn_forward_delta(col));
        let l = e4.add(geo::pawn_left_delta(col));
        let r = e4.add(geo::pawn_right_delta(col));
        if crate::conv::msq(f) != sq(4, (3 + fwd) as u8) || crate::conv::msq(l) != sq(3, (3 + fwd) as u8) || crate::conv::msq(r) != sq(5, (3 + fwd) as u8) {
            v(ctx, "geometry_pawn_deltas", &format!("const:geometry:deltas:{:?}", col), "".into());
        }
    }
    ctx.exhaustive_parts.push("RANK/FILE/DIAG/ANTIDIAG/LIGHT_SQUARES/DARK_SQUARES and all geometry:: constants for both colours".into());
}

fn model_set(b: Bitboard) -> [bool; 64] {
    let mut m = [false; 64];
    for (i, x) in m.iter_mut().enumerate() {
        *x = b.has(Coord::from_index(i));
    }
    m
}

fn check_ops(ctx: &mut Ctx, a: u64, b: u64, x: u64) {
    let ba = Bitboard::from_raw(a);
    let bb = Bitboard::from_raw(b);
    let ma = model_set(ba);
    let mb = model_set(bb);
    let case = format!("bb:{:016x}:{:016x}:{:016x}", a, b, x);
    ctx.eval(12);
    // membership is the bit at the coordinate index (documented); everything else follows the set model
    for i in 0..64 {
        if ma[i] != (a >> i & 1 != 0) {
            v(ctx, "bitboard_has", &case, format!("square {}", i));
            return;
        }
    }
    let chk = |ctx: &mut Ctx, name: &str, got: Bitboard, f: &dyn Fn(usize) -> bool| {
        let mg = model_set(got);
        for i in 0..64 {
            if mg[i] != f(i) {
                v(ctx, name, &case, format!("square {}", i));
                return;
            }
        }
    };
    chk(ctx, "bitboard_union", ba | bb, &|i| ma[i] || mb[i]);
    chk(ctx, "bitboard_intersection", ba & bb, &|i| ma[i] && mb[i]);
    chk(ctx, "bitboard_symmetric_difference", ba ^ bb, &|i| ma[i] != mb[i]);
    chk(ctx, "bitboard_complement", !ba, &|i| !ma[i]);
    let mut t = ba;
    t |= bb;
    let mut t2 = ba;
    t2 &= bb;
    let mut t3 = ba;
    t3 ^= bb;
    if t != (ba | bb) || t2 != (ba & bb) || t3 != (ba ^ bb) {
        v(ctx, "bitboard_assign_ops", &case, "".into());
    }
    let cnt = ma.iter().filter(|&&z| z).count() as u32;
    if ba.len() != cnt || ba.is_empty() != (cnt == 0) || ba.is_nonempty() != (cnt != 0) {
        v(ctx, "bitboard_count", &case, format!("{}", ba.len()));
    }
    let it: Vec<usize> = ba.into_iter().map(|c| c.index()).collect();
    let want: Vec<usize> = (0..64).filter(|&i| ma[i]).collect();
    if it != want {
        v(ctx, "bitboard_iteration", &case, format!("{:?}", it));
    }
    // single-square operations at a few squares
    for k in 0..4 {
        let i = ((x >> (k * 6)) & 63) as usize;
        let c = Coord::from_index(i);
        let w = ba.with(c);
        let wo = ba.without(c);
        let mut s = ba;
        s.set(c);
        let mut u = ba;
        u.unset(c);
        let okw = (0..64).all(|j| w.has(Coord::from_index(j)) == (ma[j] || j == i));
        let oko = (0..64).all(|j| wo.has(Coord::from_index(j)) == (ma[j] && j != i));
        if !okw || !oko || s != w || u != wo || w != ba.with2(c.file(), c.rank()) || wo != ba.without2(c.file(), c.rank()) {
            v(ctx, "bitboard_insert_remove", &case, format!("square {}", i));
        }
        if Bitboard::from_coord(c) != Bitboard::EMPTY.with(c) || Bitboard::from_coord(c).len() != 1 {
            v(ctx, "bitboard_from_coord", &case, format!("square {}", i));
        }
    }
    // flips as coordinate maps
    chk(ctx, "bitboard_flipped_rank", ba.flipped_rank(), &|i| ma[Coord::from_index(i).flipped_rank().index()]);
    chk(ctx, "bitboard_flipped_file", ba.flipped_file(), &|i| ma[Coord::from_index(i).flipped_file().index()]);
    // deposit_bits against a bit-by-bit reference
    let mut want = 0u64;
    let mut k = 0;
    for i in 0..64 {
        if a >> i & 1 != 0 {
            if x >> k & 1 != 0 {
                want |= 1u64 << i;
            }
            k += 1;
        }
    }
    if ba.deposit_bits(x).as_raw() != want {
        v(ctx, "bitboard_deposit_bits", &case, format!("{:016x} want {:016x}", ba.deposit_bits(x).as_raw(), want));
    }
    if u64::from(ba) != a || Bitboard::from(a) != ba || ba.as_raw() != a {
        v(ctx, "bitboard_raw_conversions", &case, "".into());
    }
    ctx.nontrivial(case.as_bytes());
}

fn bitboards(ctx: &mut Ctx) {
    ctx.begin_case("bitboards");
    if Bitboard::EMPTY.len() != 0 || Bitboard::FULL.len() != 64 || Bitboard::default() != Bitboard::EMPTY {
        v(ctx, "bitboard_consts", "bb:consts", "".into());
    }
    // exhaustive: all pairs of subsets of an 8-square universe, embedded at several places
    let heavy = ctx.config != "miri";
    let embeds: &[(u32, u32)] = if heavy { &[(0, 1), (56, 1), (3, 8), (0, 9), (7, 7), (28, 1)] } else { &[(0, 9)] };
    let mut item = 0u64;
    for &(base, stride) in embeds {
        let place = |sub: u32| -> u64 {
            let mut m = 0u64;
            for i in 0..8 {
                if sub >> i & 1 != 0 {
                    m |= 1u64 << ((base + i * stride) % 64);
                }
            }
            m
        };
        let lim = if heavy { 256 } else { 16 };
        for a in 0..lim {
            item += 1;
            if !ctx.mine(item) {
                continue;
            }
            for b in 0..lim {
                check_ops(ctx, place(a), place(b), (a as u64) << 8 | b as u64);
            }
        }
    }
    if ctx.shard == 0 && heavy {
        ctx.exhaustive_parts.push("bitboard algebra on all 65,536 pairs of subsets of an 8-square universe at six embeddings".into());
    }
    // full, near-full and single-square sets (shard 0)
    if ctx.shard == 0 {
        let mut specials: Vec<u64> = vec![0, u64::MAX];
        for i in 0..64 {
            specials.push(!(1u64 << i));
            specials.push(1u64 << i);
            specials.push(u64::MAX << i);
            specials.push(u64::MAX >> i);
        }
        for (k, &a) in specials.iter().enumerate() {
            for x in [0u64, 1, u64::MAX, 0x8000_0000_0000_0000, 0x5555_5555_5555_5555, ctx.rng.next_u64()] {
                let b = specials[(k * 7 + 3) % specials.len()];
                check_ops(ctx, a, b, x);
            }
        }
        ctx.feature_n("special_bitboard_operands", specials.len() as u64 * 6);
    }
    let n = ctx.budget(6_000_000, 80_000_000);
    for i in 0..n {
        let (a, b) = match i % 4 {
            0 => (ctx.rng.next_u64(), ctx.rng.next_u64()),
            1 => (ctx.rng.next_u64() & ctx.rng.next_u64() & ctx.rng.next_u64(), ctx.rng.next_u64()),
            2 => (ctx.rng.next_u64() | ctx.rng.next_u64(), ctx.rng.next_u64() & ctx.rng.next_u64()),
            _ => (1u64 << ctx.rng.below(64), ctx.rng.next_u64()),
        };
        let x = ctx.rng.next_u64();
        check_ops(ctx, a, b, x);
    }
    ctx.feature_n("random_bitboard_operand_pairs", n);
}

pub fn run(ctx: &mut Ctx) {
    if ctx.config == "miri" {
        // one part per shard: the interpreter is too slow for every shard to repeat the sweeps
        match ctx.shard % 4 {
            0 => finite_types(ctx),
            1 => constants(ctx),
            2 => text_parsers(ctx),
            _ => bitboards(ctx),
        }
        return;
    }
    if ctx.shard == 0 {
        finite_types(ctx);
        constants(ctx);
    }
    text_parsers(ctx);
    bitboards(ctx);
}

pub fn replay(ctx: &mut Ctx, case: &str) -> bool {
    if let Some(rest) = case.strip_prefix("bb:") {
        let p: Vec<&str> = rest.split(':').collect();
        if p.len() == 3 {
            if let (Ok(a), Ok(b), Ok(x)) = (u64::from_str_radix(p[0], 16), u64::from_str_radix(p[1], 16), u64::from_str_radix(p[2], 16)) {
                ctx.begin_case(case);
                check_ops(ctx, a, b, x);
                return true;
            }
        }
    }
    ctx.nshards = 1;
    ctx.shard = 0;
    finite_types(ctx);
    constants(ctx);
    text_parsers(ctx);
    true
}
