//! C15 — attack and between tables are exact for every square and every occupancy.
//! Observed through the hook re-exports, i.e. the functions (index computation, pointer offset,
//! post-mask) the library itself uses, on the tables of the build under test.

use super::*;
use crate::conv::{color, coord, msq};
use owlchess::verif_hooks as vh;
use owlchess::Bitboard;

/// model-indexed square set -> library bitboard, through `with` only
fn to_bb(mask: u64) -> Bitboard {
    let mut b = Bitboard::EMPTY;
    let mut m = mask;
    while m != 0 {
        let s = m.trailing_zeros() as u8;
        b = b.with(coord(s));
        m &= m - 1;
    }
    b
}

/// library bitboard -> model-indexed square set, through iteration only
fn from_bb(b: Bitboard) -> u64 {
    let mut m = 0u64;
    for c in b {
        m |= 1u64 << msq(c);
    }
    m
}

fn slide(s: Sq, occ: u64, dirs: &[(i8, i8)]) -> u64 {
    let mut r = 0u64;
    for &(df, dr) in dirs {
        let mut c = s;
        while let Some(n) = step(c, df, dr) {
            r |= 1u64 << n;
            if occ & (1u64 << n) != 0 {
                break;
            }
            c = n;
        }
    }
    r
}

/// ray squares short of the edge: the only squares whose occupancy can matter
fn relevant(s: Sq, dirs: &[(i8, i8)]) -> Vec<Sq> {
    let mut v = Vec::new();
    for &(df, dr) in dirs {
        let mut c = s;
        let mut line = Vec::new();
        while let Some(n) = step(c, df, dr) {
            line.push(n);
            c = n;
        }
        line.pop();
        v.extend(line);
    }
    v
}

fn names(m: u64) -> String {
    (0..64u8).filter(|s| m & (1u64 << s) != 0).map(sq_name).collect::<Vec<_>>().join(",")
}

fn check_slider(ctx: &mut Ctx, rook: bool, s: Sq, occ: u64) {
    let dirs: &[(i8, i8)] = if rook { &ROOK_D } else { &BISHOP_D };
    let want = slide(s, occ, dirs);
    let case = format!("slider:{}:{}:{:016x}", if rook { "rook" } else { "bishop" }, sq_name(s), occ);
    ctx.eval(1);
    let got = ctx.guard("lookup", &case, || if rook { vh::attack_rook(coord(s), to_bb(occ)) } else { vh::attack_bishop(coord(s), to_bb(occ)) });
    if let Some(g) = got {
        let g = from_bb(g);
        if g != want {
            ctx.violation(if rook { "rook_attack_set" } else { "bishop_attack_set" }, &case, &format!("occupied {{{}}}: library {{{}}} walking gives {{{}}}", names(occ), names(g), names(want)));
        }
    }
}

fn subsets(ctx: &mut Ctx, rook: bool, s: Sq, noise_variants: usize) {
    let dirs: &[(i8, i8)] = if rook { &ROOK_D } else { &BISHOP_D };
    let rel = relevant(s, dirs);
    let mut relmask = 0u64;
    for &r in &rel {
        relmask |= 1u64 << r;
    }
    let n = rel.len();
    ctx.begin_case(&format!("slider:{}:{}:all-{}-subsets", if rook { "rook" } else { "bishop" }, sq_name(s), 1u64 << n));
    // under Miri a strided sample of the subsets (all squares, both sliders, ~48 subsets each)
    let stride = if ctx.config == "miri" { ((1u64 << n) / 48).max(1) } else { 1 };
    let offset = if stride > 1 { ctx.seed % stride } else { 0 };
    for sub in (0..(1u64 << n)).filter(|x| x % stride == offset) {
        let mut occ = 0u64;
        for (i, &r) in rel.iter().enumerate() {
            if sub & (1 << i) != 0 {
                occ |= 1u64 << r;
            }
        }
        check_slider(ctx, rook, s, occ);
        check_slider(ctx, rook, s, occ | !relmask);
        for _ in 0..noise_variants {
            let noise = ctx.rng.next_u64() & !relmask;
            check_slider(ctx, rook, s, occ | noise);
        }
        ctx.nontrivial(format!("{}{}{:x}", rook, s, occ).as_bytes());
    }
    ctx.feature_n(if rook { "rook_blocker_subsets" } else { "bishop_blocker_subsets" }, (1u64 << n) / stride);
}

fn leapers(ctx: &mut Ctx) {
    for s in 0..64u8 {
        let mut k = 0u64;
        for (df, dr) in KING_D {
            if let Some(n) = step(s, df, dr) {
                k |= 1u64 << n;
            }
        }
        let mut kn = 0u64;
        for (df, dr) in KNIGHT_D {
            if let Some(n) = step(s, df, dr) {
                kn |= 1u64 << n;
            }
        }
        let mut pw = 0u64;
        let mut pb = 0u64;
        for df in [-1i8, 1] {
            if let Some(n) = step(s, df, 1) {
                pw |= 1u64 << n;
            }
            if let Some(n) = step(s, df, -1) {
                pb |= 1u64 << n;
            }
        }
        let case = format!("leaper:{}", sq_name(s));
        ctx.eval(4);
        if let Some((a, b, c, d)) = ctx.guard("leaper_lookup", &case, || (vh::attack_king(coord(s)), vh::attack_knight(coord(s)), vh::attack_pawn(color(true), coord(s)), vh::attack_pawn(color(false), coord(s)))) {
            if from_bb(a) != k {
                ctx.violation("king_attack_set", &case, &format!("library {{{}}} geometry {{{}}}", names(from_bb(a)), names(k)));
            }
            if from_bb(b) != kn {
                ctx.violation("knight_attack_set", &case, &format!("library {{{}}} geometry {{{}}}", names(from_bb(b)), names(kn)));
            }
            if from_bb(c) != pw {
                ctx.violation("white_pawn_attack_set", &case, &format!("library {{{}}} geometry {{{}}}", names(from_bb(c)), names(pw)));
            }
            if from_bb(d) != pb {
                ctx.violation("black_pawn_attack_set", &case, &format!("library {{{}}} geometry {{{}}}", names(from_bb(d)), names(pb)));
            }
        }
        ctx.nontrivial(case.as_bytes());
    }
    ctx.feature_n("leaper_squares", 64);
}

fn pairs(ctx: &mut Ctx) {
    for a in 0..64u8 {
        for b in 0..64u8 {
            let df = file_of(b) as i8 - file_of(a) as i8;
            let dr = rank_of(b) as i8 - rank_of(a) as i8;
            let diag = a != b && df.abs() == dr.abs();
            let line = a != b && (df == 0 || dr == 0);
            let case = format!("pair:{}:{}", sq_name(a), sq_name(b));
            ctx.eval(4);
            let Some((bv, rv, bs, rs)) = ctx.guard("between_lookup", &case, || {
                (vh::between_is_bishop_valid(coord(a), coord(b)), vh::between_is_rook_valid(coord(a), coord(b)), vh::between_bishop_strict(coord(a), coord(b)), vh::between_rook_strict(coord(a), coord(b)))
            }) else { continue };
            if bv != diag {
                ctx.violation("is_bishop_valid", &case, &format!("library {} geometry {}", bv, diag));
            }
            if rv != line {
                ctx.violation("is_rook_valid", &case, &format!("library {} geometry {}", rv, line));
            }
            // strictly-between by stepping (defined for aligned pairs and for a == b)
            let mut btw = 0u64;
            if diag || line {
                let (sf, sr) = (df.signum(), dr.signum());
                let mut c = a;
                while let Some(n) = step(c, sf, sr) {
                    if n == b {
                        break;
                    }
                    btw |= 1u64 << n;
                    c = n;
                }
            }
            if diag || a == b {
                if from_bb(bs) != btw {
                    ctx.violation("bishop_strict_between", &case, &format!("library {{{}}} stepping {{{}}}", names(from_bb(bs)), names(btw)));
                }
                ctx.feature("diag_pairs");
            }
            if line || a == b {
                if from_bb(rs) != btw {
                    ctx.violation("rook_strict_between", &case, &format!("library {{{}}} stepping {{{}}}", names(from_bb(rs)), names(btw)));
                }
                ctx.feature("line_pairs");
            }
            ctx.nontrivial(case.as_bytes());
        }
    }
}

pub fn run(ctx: &mut Ctx) {
    let miri = ctx.config == "miri";
    // exhaustive subset sweeps, split over shards by (slider, square)
    let mut item = 0u64;
    for rook in [true, false] {
        for s in 0..64u8 {
            item += 1;
            if !ctx.mine(item) {
                continue;
            }
            subsets(ctx, rook, s, if miri { 0 } else { 2 });
        }
    }
    if ctx.shard == 0 {
        leapers(ctx);
        pairs(ctx);
        if !miri {
            ctx.exhaustive_parts.push("every subset of the edge-excluded ray squares for all 64 squares and both sliders (102,400 rook and 5,248 bishop subsets), each bare, with random noise on irrelevant squares, and with all irrelevant squares filled".into());
        }
        ctx.exhaustive_parts.push("king, knight and both pawn attack sets on all 64 squares; alignment predicates on all 4,096 pairs; strictly-between sets on all aligned pairs and a == b".into());
    }
    // random 64-bit occupancies: uniform, sparse, dense
    let n = ctx.budget(8_000_000, 100_000_000);
    ctx.begin_case("slider:random-occupancies");
    for i in 0..n {
        let s = ctx.rng.below(64) as u8;
        let occ = match i % 3 {
            0 => ctx.rng.next_u64(),
            1 => ctx.rng.next_u64() & ctx.rng.next_u64() & ctx.rng.next_u64(),
            _ => ctx.rng.next_u64() | ctx.rng.next_u64() | ctx.rng.next_u64(),
        };
        check_slider(ctx, i % 2 == 0, s, occ);
    }
    ctx.feature_n("random_occupancies", n);
}

pub fn replay(ctx: &mut Ctx, case: &str) -> bool {
    let parts: Vec<&str> = case.split(':').collect();
    match parts.as_slice() {
        ["slider", which, sqn, occ] => {
            let Some(s) = parse_sq(sqn) else { return false };
            if let Ok(o) = u64::from_str_radix(occ, 16) {
                ctx.begin_case(case);
                check_slider(ctx, *which == "rook", s, o);
            } else {
                subsets(ctx, *which == "rook", s, 2);
            }
            true
        }
        ["leaper", _] => {
            leapers(ctx);
            true
        }
        ["pair", _, _] => {
            pairs(ctx);
            true
        }
        _ => false,
    }
}
