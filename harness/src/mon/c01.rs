//! C01 — legal move generation is exactly the rules of chess.

use super::*;
use crate::conv::{to_move, move_kind, cell, coord};
use crate::stream::Sources;
use owlchess::movegen::{legal, semilegal};
use owlchess::moves::{self, Move};
use owlchess::Board;

fn is_cap(p: &MPos, m: &MMove) -> bool {
    p.is_capture(m)
}

pub fn check_pos(ctx: &mut Ctx, mp: &MPos, b: &Board) {
    let case = format!("pos:{}", mfen::to_xfen(mp));
    let pseudo = mp.pseudo_moves();
    let model_legal = sorted(pseudo.iter().copied().filter(|m| mp.is_legal_pseudo(m)).collect());

    // 1. the five legal generators
    type Gen = fn(&Board) -> owlchess::MoveList;
    let gens: [(&str, Gen, fn(&MPos, &MMove) -> bool); 5] = [
        ("gen_all", legal::gen_all, |_, _| true),
        ("gen_capture", legal::gen_capture, |p, m| is_cap(p, m)),
        ("gen_simple", legal::gen_simple, |p, m| !is_cap(p, m)),
        ("gen_simple_no_promote", legal::gen_simple_no_promote, |p, m| !is_cap(p, m) && !m.kind.is_promo()),
        ("gen_simple_promote", legal::gen_simple_promote, |p, m| !is_cap(p, m) && m.kind.is_promo()),
    ];
    for (name, g, filt) in gens {
        let Some(list) = ctx.guard(name, &case, || g(b)) else { continue };
        ctx.eval(1);
        let want: Vec<MMove> = model_legal.iter().copied().filter(|m| filt(mp, m)).collect();
        match lib_moves(&list) {
            None => ctx.violation(&format!("legal_{}_null_move", name), &case, "generator returned a null move"),
            Some(got) => {
                if let Some(d) = diff_moves(&got, &want) {
                    ctx.violation(&format!("legal_{}", name), &case, &d);
                }
            }
        }
    }

    // 2. the other single-move deciders, on every pseudo-legal move of the model
    let mut bb = b.clone();
    for m in &pseudo {
        let is_legal = model_legal.binary_search(m).is_ok();
        let Some(lm) = to_move(m) else { continue };
        if !lm.is_semilegal(b) {
            // C06's business; the unsafe contract forbids going on with this move
            ctx.feature("pseudo_not_semilegal_skipped");
            continue;
        }
        let mcase = format!("{}|{}", case, mv_str(m));
        ctx.eval(3);
        if let Some(r) = ctx.guard("validate", &mcase, || lm.validate(b)) {
            if r.is_ok() != is_legal {
                ctx.violation("validate_vs_rules", &mcase, &format!("validate={:?} rules legal={}", r, is_legal));
            }
        }
        if let Some(r) = ctx.guard("is_legal_unchecked", &mcase, || unsafe { lm.is_legal_unchecked(b) }) {
            if r != is_legal {
                ctx.violation("is_legal_unchecked_vs_rules", &mcase, &format!("is_legal_unchecked={} rules legal={}", r, is_legal));
            }
        }
        if let Some(r) = ctx.guard("make_and_test", &mcase, || unsafe {
            let u = moves::make_move_unchecked(&mut bb, lm);
            let attacked = bb.is_opponent_king_attacked();
            moves::unmake_move_unchecked(&mut bb, lm, u);
            attacked
        }) {
            if !r != is_legal {
                ctx.violation("make_and_test_vs_rules", &mcase, &format!("king attacked after move={} rules legal={}", r, is_legal));
            }
        } else {
            bb = b.clone();
        }
    }

    // 3. near-miss tuples: right squares with the wrong kind or the wrong man must not validate
    for m in pseudo.iter().take(24) {
        for k in MKind::ALL {
            for man in [m.man, other_man(m.man)] {
                if k == m.kind && man == m.man {
                    continue;
                }
                if let Ok(lm) = Move::new(move_kind(k), cell(man), coord(m.from), coord(m.to)) {
                    let alt = MMove { kind: k, man, from: m.from, to: m.to };
                    let want = model_legal.binary_search(&alt).is_ok();
                    ctx.eval(1);
                    let mcase = format!("{}|{}", case, mv_str(&alt));
                    if let Some(r) = ctx.guard("validate_nearmiss", &mcase, || lm.validate(b)) {
                        if r.is_ok() != want {
                            ctx.violation("validate_nearmiss", &mcase, &format!("validate={:?} rules legal={}", r, want));
                        }
                    }
                }
            }
        }
    }

    // 4. on a sample of positions: validate on EVERY well-formed tuple of the side to move
    let full = (ctx.cases % 8 == 1 && (ctx.config != "miri" || ctx.cases == 1)) || ctx.is_replay;
    // at most 40,000 of these heavy sweeps per shard (they dominate the cost of the complete
    // three-man enumeration in the thorough tier)
    let full = full && ctx.features.get("full_tuple_sweeps").copied().unwrap_or(0) < 40_000;
    if full {
        let mut accepted: Vec<MMove> = Vec::new();
        let mut tuples = 0u64;
        let w = mp.white_to_move;
        for k in MKind::ALL {
            for pk in *b"PKNBRQ" {
                let mn = man(w, pk);
                for from in 0..64u8 {
                    for to in 0..64u8 {
                        if let Ok(lm) = Move::new(move_kind(k), cell(mn), coord(from), coord(to)) {
                            tuples += 1;
                            if lm.validate(b).is_ok() {
                                accepted.push(MMove { kind: k, man: mn, from, to });
                            }
                        }
                    }
                }
            }
        }
        ctx.eval(tuples);
        ctx.feature("full_tuple_sweeps");
        accepted.sort();
        if let Some(d) = diff_moves(&accepted, &model_legal) {
            ctx.violation("validate_all_tuples", &case, &d);
        }
    }

    // coverage
    let illegal_pseudo = pseudo.len() - model_legal.len();
    let in_check = mp.in_check();
    let special = pseudo.iter().any(|m| m.kind != MKind::Simple);
    if illegal_pseudo > 0 || in_check || special {
        ctx.nontrivial(&mp.rep_key());
    }
    if illegal_pseudo > 0 {
        ctx.feature("pos_with_illegal_pseudo_move");
    }
    if in_check {
        ctx.feature("pos_in_check");
        if mp.attackers(mp.king_sq(mp.white_to_move).unwrap(), !mp.white_to_move).len() >= 2 {
            ctx.feature("pos_double_check");
        }
    }
    for m in &pseudo {
        let l = model_legal.binary_search(m).is_ok();
        match m.kind {
            MKind::EnPassant => ctx.feature(if l { "ep_legal" } else { "ep_illegal" }),
            MKind::CastleK | MKind::CastleQ => ctx.feature(if l { "castle_legal" } else { "castle_illegal" }),
            MKind::PromoN => ctx.feature(if l { "promo_legal" } else { "promo_illegal" }),
            _ => {}
        }
    }
    if model_legal.is_empty() {
        ctx.feature("pos_no_legal_moves");
    }
    let _ = semilegal::gen_all;
}

fn other_man(m: u8) -> u8 {
    // a different man of the same colour
    let k = match kind(m) {
        b'P' => b'B',
        b'K' => b'Q',
        b'N' => b'K',
        b'B' => b'P',
        b'R' => b'Q',
        _ => b'R',
    };
    man(is_white(m), k)
}

fn mv_str(m: &MMove) -> String {
    format!("{:?}:{}:{}", m.kind, m.man as char, m.uci())
}

pub fn run(ctx: &mut Ctx) {
    let n = ctx.budget(500_000, 8_000_000);
    let mut src = Sources::standard(n);
    if ctx.tier == crate::ctx::Tier::Thorough && ctx.config != "miri" {
        src.three_man = u64::MAX;
    } else {
        src.three_man = n / 10;
    }
    stream::run(ctx, &src, &mut check_pos);
}

pub fn replay(ctx: &mut Ctx, case: &str) -> bool {
    let pos_part = case.split('|').next().unwrap_or(case);
    replay_pos(ctx, pos_part, &mut check_pos)
}
