//! One monitor per property.

pub mod selftest;

pub mod c01;
pub mod c03;
pub mod c04;
pub mod c06;
pub mod c07;
pub mod c16;
pub mod c20;
pub mod c19;
pub mod c15;
pub mod chainmon;
pub mod c02;
pub mod c09;
pub mod c12;
pub mod c11;
pub mod c10;
pub mod c08;
pub mod c05;
pub mod c18;

use crate::conv;
use crate::ctx::Ctx;
use crate::mfen;
use crate::model::*;
use crate::stream::{self, PosFn};
use owlchess::moves::Move;

pub fn run(ctx: &mut Ctx) -> bool {
    match ctx.prop.as_str() {
        "C01" => c01::run(ctx),
        "C03" => c03::run(ctx),
        "C04" => c04::run(ctx),
        "C06" => c06::run(ctx),
        "C07" => c07::run(ctx),
        "C16" => c16::run(ctx),
        "C20" => c20::run(ctx),
        "C19" => c19::run(ctx),
        "C15" => c15::run(ctx),
        "C13" | "C14" | "C17" => chainmon::run(ctx),
        "C02" => c02::run(ctx),
        "C09" => c09::run(ctx),
        "C12" => c12::run(ctx),
        "C11" => c11::run(ctx),
        "C10" => c10::run(ctx),
        "C08" => c08::run(ctx),
        "C05" => c05::run(ctx),
        "C18" => c18::run(ctx),
        _ => return false,
    }
    true
}

pub fn replay(ctx: &mut Ctx, case: &str) -> bool {
    match ctx.prop.as_str() {
        "C01" => c01::replay(ctx, case),
        "C03" => c03::replay(ctx, case),
        "C04" => c04::replay(ctx, case),
        "C06" => c06::replay(ctx, case),
        "C07" => c07::replay(ctx, case),
        "C16" => c16::replay(ctx, case),
        "C20" => c20::replay(ctx, case),
        "C19" => c19::replay(ctx, case),
        "C15" => c15::replay(ctx, case),
        "C13" | "C14" | "C17" => chainmon::replay(ctx, case),
        "C02" => c02::replay(ctx, case),
        "C09" => c09::replay(ctx, case),
        "C12" => c12::replay(ctx, case),
        "C11" => c11::replay(ctx, case),
        "C10" => c10::replay(ctx, case),
        "C08" => c08::replay(ctx, case),
        "C05" => c05::replay(ctx, case),
        "C18" => c18::replay(ctx, case),
        _ => false,
    }
}

/// Library move list -> sorted model moves (null moves are reported as `None`).
pub fn lib_moves(list: &[Move]) -> Option<Vec<MMove>> {
    let mut v = Vec::with_capacity(list.len());
    for m in list {
        v.push(conv::from_move(m)?);
    }
    v.sort();
    Some(v)
}

pub fn sorted(mut v: Vec<MMove>) -> Vec<MMove> {
    v.sort();
    v
}

fn mv_str(m: &MMove) -> String {
    format!("{:?}:{}:{}", m.kind, m.man as char, m.uci())
}

/// Multiset difference description, `None` when equal. Both inputs sorted.
pub fn diff_moves(lib: &[MMove], model: &[MMove]) -> Option<String> {
    if lib == model {
        return None;
    }
    let mut extra = Vec::new();
    let mut missing = Vec::new();
    let (mut i, mut j) = (0, 0);
    while i < lib.len() || j < model.len() {
        if j >= model.len() || (i < lib.len() && lib[i] < model[j]) {
            extra.push(mv_str(&lib[i]));
            i += 1;
        } else if i >= lib.len() || model[j] < lib[i] {
            missing.push(mv_str(&model[j]));
            j += 1;
        } else {
            i += 1;
            j += 1;
        }
    }
    Some(format!("library has extra [{}], lacks [{}]", extra.join(" "), missing.join(" ")))
}

/// Generic replay of a `pos:<xfen>` case through a position callback.
pub fn replay_pos(ctx: &mut Ctx, case: &str, f: &mut PosFn) -> bool {
    let Some(x) = case.strip_prefix("pos:") else { return false };
    let Ok(p) = mfen::from_fen(x) else { return false };
    stream::offer(ctx, &p, "replay", f)
}
