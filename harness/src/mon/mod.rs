//! One monitor per property.

pub mod selftest;

pub mod c01;

use crate::conv;
use crate::ctx::Ctx;
use crate::mfen;
use crate::model::*;
use crate::stream::{self, PosFn};
use owlchess::moves::Move;

pub fn run(ctx: &mut Ctx) -> bool {
    match ctx.prop.as_str() {
        "C01" => c01::run(ctx),
        _ => return false,
    }
    true
}

pub fn replay(ctx: &mut Ctx, case: &str) -> bool {
    match ctx.prop.as_str() {
        "C01" => c01::replay(ctx, case),
        _ => false,
    }
}

/// Library move list -> sorted model moves (null moves are reported as `None`).
pub fn lib_moves(list: &[Move]) -> Option<Vec<MMove>> {
    let mut v = Vec::with_capacity(list.len());
    for m in list {
        v.push(conv::from_move(m)?);
    }
    v.sort();
    Some(v)
}

pub fn sorted(mut v: Vec<MMove>) -> Vec<MMove> {
    v.sort();
    v
}

fn mv_str(m: &MMove) -> String {
    format!("{:?}:{}:{}", m.kind, m.man as char, m.uci())
}

/// Multiset difference description, `None` when equal. Both inputs sorted.
pub fn diff_moves(lib: &[MMove], model: &[MMove]) -> Option<String> {
    if lib == model {
        return None;
    }
    let mut extra = Vec::new();
    let mut missing = Vec::new();
    let (mut i, mut j) = (0, 0);
    while i < lib.len() || j < model.len() {
        if j >= model.len() || (i < lib.len() && lib[i] < model[j]) {
            extra.push(mv_str(&lib[i]));
            i += 1;
        } else if i >= lib.len() || model[j] < lib[i] {
            missing.push(mv_str(&model[j]));
            j += 1;
        } else {
            i += 1;
            j += 1;
        }
    }
    Some(format!("library has extra [{}], lacks [{}]", extra.join(" "), missing.join(" ")))
}

/// Generic replay of a `pos:<xfen>` case through a position callback.
pub fn replay_pos(ctx: &mut Ctx, case: &str, f: &mut PosFn) -> bool {
    let Some(x) = case.strip_prefix("pos:") else { return false };
    let Ok(p) = mfen::from_fen(x) else { return false };
    stream::offer(ctx, &p, "replay", f)
}
