//! C09 — SAN output is standard; SAN input resolves only to the legal move it describes.

use super::*;
use crate::conv::{from_move, to_move};
use crate::msan::{self, SanTok};
use crate::stream::Sources;
use owlchess::moves::{san, Move, Style};
use owlchess::Board;
use std::collections::HashMap;
use std::str::FromStr;

fn mv_str(m: &MMove) -> String {
    format!("{:?}:{}:{}", m.kind, m.man as char, m.uci())
}

/// Soundness of parsing one text in one position.
pub fn check_text(ctx: &mut Ctx, case: &str, legal: &[MMove], b: &Board, t: &str) {
    ctx.eval(1);
    let tcase = format!("{}|san:{}", case, crate::ctx::hex(t.as_bytes()));
    let Some(r) = ctx.guard("from_san", &tcase, || Move::from_san(t, b)) else { return };
    let tok = msan::tokenize(t);
    match r {
        Ok(mv) => {
            let Some(mm) = from_move(&mv) else {
                ctx.violation("san_returns_null_move", &tcase, &format!("{:?}", t));
                return;
            };
            if !legal.contains(&mm) {
                ctx.violation("san_returns_illegal_move", &tcase, &format!("{:?} -> {} which is not legal", t, mv_str(&mm)));
                return;
            }
            match &tok {
                Some(tok) => {
                    ctx.feature("parsed_standard_form");
                    if !msan::agrees(tok, &mm) {
                        ctx.violation("san_returns_move_disagreeing_with_text", &tcase, &format!("{:?} ({:?}) -> {}", t, tok, mv_str(&mm)));
                    }
                    let agreeing: Vec<&MMove> = legal.iter().filter(|m| msan::agrees(tok, m)).collect();
                    if agreeing.len() >= 2 {
                        ctx.violation("san_chose_among_ambiguous", &tcase, &format!("{:?} fits {} legal moves but {} was returned", t, agreeing.len(), mv_str(&mm)));
                    }
                }
                None => ctx.feature("lenient_accepted"),
            }
        }
        Err(e) => {
            if let Some(tok) = &tok {
                let agreeing = legal.iter().filter(|m| msan::agrees(tok, m)).count();
                if agreeing >= 2 {
                    ctx.feature("ambiguous_text_refused");
                    if matches!(e, san::ParseError::Convert(san::IntoMoveError::Ambiguity(_, _))) {
                        ctx.feature("ambiguity_reported_as_such");
                    }
                }
            }
        }
    }
}

pub fn check_pos(ctx: &mut Ctx, mp: &MPos, b: &Board) {
    let case = format!("pos:{}", mfen::to_xfen(mp));
    let pseudo = mp.pseudo_moves();
    let legal: Vec<MMove> = pseudo.iter().copied().filter(|m| mp.is_legal_pseudo(m)).collect();
    let mut seen: HashMap<String, MMove> = HashMap::new();
    let mut texts: Vec<String> = Vec::new();
    let mut multi = false;

    for m in &legal {
        let Some(lm) = to_move(m) else { continue };
        let mcase = format!("{}|{}", case, mv_str(m));
        ctx.eval(4);
        let want = msan::san(mp, &legal, m, false);
        let want_utf8 = msan::san(mp, &legal, m, true);
        let Some(r) = ctx.guard("san", &mcase, || lm.san(b)) else { continue };
        let s = match r {
            Ok(s) => s,
            Err(e) => {
                ctx.violation("san_of_legal_move_fails", &mcase, &format!("{:?}", e));
                continue;
            }
        };
        let Some((text, utf8)) = ctx.guard("san_to_string", &mcase, || (s.to_string(), s.styled(san::Style::Utf8).to_string())) else { continue };
        if text != want {
            ctx.violation("san_text", &mcase, &format!("library {:?} standard {:?}", text, want));
        }
        if utf8 != want_utf8 {
            ctx.violation("san_utf8_text", &mcase, &format!("library {:?} standard {:?}", utf8, want_utf8));
        }
        // Move::styled for all three styles
        if let Some(st) = ctx.guard("styled", &mcase, || {
            (
                lm.styled(b, Style::San).map(|x| x.to_string()),
                lm.styled(b, Style::SanUtf8).map(|x| x.to_string()),
                lm.styled(b, Style::Uci).map(|x| x.to_string()),
            )
        }) {
            if st.0.as_deref().ok() != Some(want.as_str()) || st.1.as_deref().ok() != Some(want_utf8.as_str()) || st.2.as_deref().ok() != Some(m.uci().as_str()) {
                ctx.violation("styled_text", &mcase, &format!("{:?}", st));
            }
        }
        if let Some(prev) = seen.insert(text.clone(), *m) {
            ctx.violation("two_moves_same_san", &mcase, &format!("{:?} is also the text of {}", text, mv_str(&prev)));
        }
        // round trip
        if let Some(r) = ctx.guard("from_san_roundtrip", &mcase, || Move::from_san(&text, b)) {
            if r != Ok(lm) {
                ctx.violation("san_roundtrip", &mcase, &format!("{:?} parses to {:?}", text, r.map(|x| crate::conv::move_desc(&x))));
            }
        }
        if let Some(r) = ctx.guard("san_from_str", &mcase, || san::Move::from_str(&text)) {
            // not demanded by the property (only the Move-level round trip is); counted only
            if r != Ok(s) {
                ctx.feature("san_value_differs_after_text_roundtrip");
            }
        }
        // hints present?
        if let Some(SanTok::Piece { from_file, from_rank, .. }) = msan::tokenize(&want) {
            match (from_file.is_some(), from_rank.is_some()) {
                (true, true) => ctx.feature("disambiguation_both"),
                (true, false) => ctx.feature("disambiguation_file"),
                (false, true) => ctx.feature("disambiguation_rank"),
                _ => {}
            }
            if from_file.is_some() || from_rank.is_some() {
                multi = true;
            }
        }
        if want.ends_with('#') {
            ctx.feature("mate_mark");
        } else if want.ends_with('+') {
            ctx.feature("check_mark");
        }
        match m.kind {
            MKind::EnPassant => ctx.feature("san_en_passant"),
            MKind::CastleK | MKind::CastleQ => ctx.feature("san_castling"),
            MKind::PromoN | MKind::PromoB | MKind::PromoR | MKind::PromoQ => ctx.feature("san_promotion"),
            _ => {}
        }
        texts.push(want);
    }
    // pinned look-alikes: a pseudo-legal, illegal move of the same kind to the same square must not
    // cause a hint, and san() of an illegal move must fail
    for m in pseudo.iter().filter(|m| !legal.contains(m)) {
        let Some(lm) = to_move(m) else { continue };
        if !lm.is_semilegal(b) {
            continue;
        }
        ctx.eval(1);
        let mcase = format!("{}|{}", case, mv_str(m));
        if let Some(r) = ctx.guard("san_illegal", &mcase, || lm.san(b)) {
            if r.is_ok() {
                ctx.violation("san_of_illegal_move_succeeds", &mcase, &format!("{:?}", r.map(|s| s.to_string())));
            }
        }
        if legal.iter().any(|l| l.man == m.man && l.to == m.to && l.from != m.from) {
            ctx.feature("illegal_lookalike_candidate");
        }
        // text the move would have if it were legal
        let mut as_if: Vec<MMove> = legal.clone();
        as_if.push(*m);
        texts.push(msan::san_core(mp, &as_if, m, false));
    }

    // text variants
    let mut variants: Vec<String> = Vec::new();
    for t in &texts {
        let core = t.trim_end_matches(['+', '#']).to_string();
        variants.push(core.clone());
        variants.push(format!("{}+", core));
        variants.push(format!("{}#", core));
        variants.push(format!("{}++", core));
        if core.contains('x') {
            variants.push(core.replace('x', ""));
            variants.push(core.replace('x', ":"));
        } else if core.len() >= 2 && !core.starts_with('O') {
            let (a, bb) = core.split_at(core.len() - 2);
            if bb.as_bytes()[0].is_ascii_lowercase() && bb.as_bytes()[1].is_ascii_digit() {
                variants.push(format!("{}x{}", a, bb));
            }
        }
        if core.contains('=') {
            variants.push(core.replace('=', ""));
            for pc in ["N", "B", "R", "Q", "K"] {
                let base = &core[..core.find('=').unwrap()];
                variants.push(format!("{}={}", base, pc));
            }
            variants.push(core[..core.find('=').unwrap()].to_string());
        } else if core.as_bytes()[0].is_ascii_lowercase() {
            variants.push(format!("{}=Q", core));
            variants.push(format!("{}N", core));
        }
        // hints: drop, add, falsify
        let bytes = core.as_bytes();
        if b"NBRQK".contains(&bytes[0]) && core.len() >= 3 {
            let dst = &core[core.len() - 2..];
            let x = if core.contains('x') { "x" } else { "" };
            let pc = &core[..1];
            variants.push(format!("{}{}{}", pc, x, dst));
            for f in ["a", "d", "e", "h"] {
                variants.push(format!("{}{}{}{}", pc, f, x, dst));
            }
            for r in ["1", "4", "5", "8"] {
                variants.push(format!("{}{}{}{}", pc, r, x, dst));
            }
            for other in ["N", "B", "R", "Q", "K"] {
                variants.push(format!("{}{}{}", other, x, dst));
            }
        }
    }
    // fully spelled origin with every piece letter: only the right letter may resolve
    for m in legal.iter().take(12) {
        for l in ["N", "B", "R", "Q", "K"] {
            variants.push(format!("{}{}{}", l, sq_name(m.from), sq_name(m.to)));
            variants.push(format!("{}{}x{}", l, sq_name(m.from), sq_name(m.to)));
        }
    }
    // short pawn captures for every adjacent file pair, with and without promotion
    for f in 0..8u8 {
        for g in 0..8u8 {
            if g != f {
                let s = format!("{}{}", (b'a' + f) as char, (b'a' + g) as char);
                variants.push(s.clone());
                if g + 1 == f || f + 1 == g || ctx.cases % 4 == 0 {
                    variants.push(format!("{}=Q", s));
                    variants.push(format!("{}N", s));
                }
            }
        }
    }
    variants.extend(["O-O", "O-O-O", "0-0", "0-0-0", "O-O+", "O-O-O#"].iter().map(|s| s.to_string()));
    // every piece letter x every destination on a sample
    if ctx.cases % 6 == 0 || ctx.is_replay {
        for pc in ["N", "B", "R", "Q", "K"] {
            for s in 0..64u8 {
                variants.push(format!("{}{}", pc, sq_name(s)));
            }
        }
        for s in 0..64u8 {
            variants.push(sq_name(s));
        }
        ctx.feature("all_piece_destination_texts");
    }
    for _ in 0..6 {
        let base = if texts.is_empty() { "e4".to_string() } else { ctx.rng.pick(&texts).clone() };
        variants.push(crate::gentext::mutate(&mut ctx.rng, &base, crate::gentext::SAN_ALPHABET));
    }
    variants.sort();
    variants.dedup();
    if ctx.light() {
        variants.truncate(40);
    }
    for t in &variants {
        check_text(ctx, &case, &legal, b, t);
    }
    ctx.feature_n("texts_tried", variants.len() as u64);
    if multi || legal.len() != pseudo.len() {
        ctx.nontrivial(&mp.rep_key());
    }
}

pub fn run(ctx: &mut Ctx) {
    let n = ctx.budget(250_000, 3_000_000);
    let mut src = Sources::standard(n);
    src.three_man = n / 20;
    stream::run(ctx, &src, &mut check_pos);
    for _ in 0..n / 2 {
        let p = crate::gen::fam_san_crowd(&mut ctx.rng);
        stream::offer(ctx, &p, "fam_san_crowd", &mut check_pos);
    }
}

pub fn replay(ctx: &mut Ctx, case: &str) -> bool {
    replay_pos(ctx, case.split('|').next().unwrap_or(case), &mut check_pos)
}
