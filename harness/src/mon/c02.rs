//! C02 — the safe API yields only valid positions; a move-like value is accepted iff legal;
//! a refusal is an error value (no panic) and leaves the position exactly as it was.

use super::*;
use crate::conv::{cell, coord, from_move, from_raw, full, full_diff, move_kind, to_move, Full};
use crate::msan;
use crate::stream::Sources;
use owlchess::chain::MoveChain;
use owlchess::moves::{self, make, uci, Make, Move};
use owlchess::Board;

fn mv_str(m: &MMove) -> String {
    format!("{:?}:{}:{}", m.kind, m.man as char, m.uci())
}

#[derive(Clone)]
enum Expect {
    /// The candidate denotes exactly this legal move (must be accepted) or none (must be refused)
    Exact(Option<MMove>),
    /// Free text: if accepted, the result must be the successor of some legal move
    Sound,
}

/// Is `rb` a valid position by every observable criterion?
fn check_valid_result(ctx: &mut Ctx, case: &str, how: &str, rb: &Board) -> Option<MPos> {
    ctx.eval(1);
    let f = full(rb);
    let r = ctx.guard("revalidate", case, || Board::try_from(*rb.raw()))?;
    match r {
        Err(e) => {
            ctx.violation(&format!("result_fails_revalidation:{}", how), case, &format!("{} -> {:?}", rb.raw().as_fen(), e));
            return None;
        }
        Ok(again) => {
            let g = full(&again);
            if g != f {
                ctx.violation(&format!("result_not_reproduced_by_revalidation:{}", how), case, &full_diff(&f, &g));
                return None;
            }
        }
    }
    if rb.is_opponent_king_attacked() {
        ctx.violation(&format!("mover_left_in_check:{}", how), case, &rb.raw().as_fen());
        return None;
    }
    let mp = from_raw(rb.raw());
    if !mp.is_valid() {
        ctx.violation(&format!("result_invalid_per_rules:{}", how), case, &format!("{} : {:?}", mfen::to_xfen(&mp), mp.invalid_reasons()));
        return None;
    }
    Some(mp)
}

fn judge(ctx: &mut Ctx, case: &str, how: &str, mp: &MPos, legal: &[MMove], expect: &Expect, result: Option<&Board>) {
    match (expect, result) {
        (Expect::Exact(Some(m)), Some(rb)) => {
            if let Some(got) = check_valid_result(ctx, case, how, rb) {
                let want = mp.apply(m);
                if got != want {
                    ctx.violation(&format!("accepted_but_wrong_successor:{}", how), case, &format!("got {} want {}", mfen::to_xfen(&got), mfen::to_xfen(&want)));
                }
            }
            ctx.feature("accepted_legal");
        }
        (Expect::Exact(Some(m)), None) => {
            ctx.violation(&format!("legal_move_refused:{}", how), case, &mv_str(m));
        }
        (Expect::Exact(None), Some(rb)) => {
            ctx.violation(&format!("illegal_candidate_accepted:{}", how), case, &format!("result {}", rb.raw().as_fen()));
            let _ = check_valid_result(ctx, case, how, rb);
        }
        (Expect::Exact(None), None) => ctx.feature("refused_illegal"),
        (Expect::Sound, Some(rb)) => {
            if let Some(got) = check_valid_result(ctx, case, how, rb) {
                if !legal.iter().any(|m| mp.apply(m) == got) {
                    ctx.violation(&format!("accepted_text_is_no_legal_move:{}", how), case, &format!("result {} is not the successor of any legal move", mfen::to_xfen(&got)));
                }
            }
            ctx.feature("accepted_free_text");
        }
        (Expect::Sound, None) => ctx.feature("refused_free_text"),
    }
}

/// Drive one candidate through the four safe entry points.
#[allow(clippy::too_many_arguments)]
fn apply_all<M: Make>(ctx: &mut Ctx, case: &str, name: &str, b: &Board, snap: &Full, mp: &MPos, legal: &[MMove], expect: &Expect, mk: &dyn Fn() -> M) {
    let ccase = format!("{}|{}", case, name);
    ctx.eval(4);
    let mut verdicts: Vec<(&str, bool)> = Vec::new();
    // 1. Make::make and Board::make_move
    if let Some(r) = ctx.guard("make", &ccase, || mk().make(b)) {
        verdicts.push(("make", r.is_ok()));
        judge(ctx, &ccase, "make", mp, legal, expect, r.as_ref().ok());
    }
    if let Some(r) = ctx.guard("make_move", &ccase, || b.make_move(mk())) {
        verdicts.push(("make_move", r.is_ok()));
        judge(ctx, &ccase, "make_move", mp, legal, expect, r.as_ref().ok());
    }
    if full(b) != *snap {
        ctx.violation("shared_board_changed", &ccase, "a &Board passed to make() was modified");
    }
    // 2. make_raw in place
    let mut bb = b.clone();
    if let Some(r) = ctx.guard("make_raw", &ccase, || mk().make_raw(&mut bb)) {
        verdicts.push(("make_raw", r.is_ok()));
        match r {
            Ok((mv, u)) => {
                judge(ctx, &ccase, "make_raw", mp, legal, expect, Some(&bb));
                // the returned pair must undo it exactly
                let ok = ctx.guard("make_raw_undo", &ccase, || unsafe { moves::unmake_move_unchecked(&mut bb, mv, u) });
                if ok.is_some() && full(&bb) != *snap {
                    ctx.violation("make_raw_pair_does_not_undo", &ccase, &full_diff(&full(&bb), snap));
                }
            }
            Err(_) => {
                judge(ctx, &ccase, "make_raw", mp, legal, expect, None);
                if full(&bb) != *snap {
                    ctx.violation("refused_make_raw_changed_board", &ccase, &full_diff(&full(&bb), snap));
                }
            }
        }
    }
    // 3. through a chain
    let r = crate::ctx::catch(|| {
        let mut ch = MoveChain::new(b.clone());
        let r = ch.push(mk());
        (r.is_ok(), ch)
    });
    match r {
        Err(msg) => ctx.violation(&format!("panic:chain_push:{}", crate::ctx::panic_site(&msg)), &ccase, &msg),
        Ok((ok, ch)) => {
            verdicts.push(("chain_push", ok));
            if ok {
                judge(ctx, &ccase, "chain_push", mp, legal, expect, Some(ch.last()));
                if ch.len() != 1 {
                    ctx.violation("chain_len_after_accepted_push", &ccase, &format!("{}", ch.len()));
                }
            } else {
                judge(ctx, &ccase, "chain_push", mp, legal, expect, None);
                if ch.len() != 0 || full(ch.last()) != *snap {
                    ctx.violation("refused_push_changed_chain", &ccase, &full_diff(&full(ch.last()), snap));
                }
            }
        }
    }
    if verdicts.iter().any(|v| v.1) && verdicts.iter().any(|v| !v.1) {
        ctx.violation("entry_points_disagree", &ccase, &format!("{:?}", verdicts));
    }
}

/// The UCI list entry points of the chain (`from_uci_list`, `push_uci_list`) with a one-token list.
fn cand_list(ctx: &mut Ctx, case: &str, b: &Board, snap: &Full, mp: &MPos, legal: &[MMove], text: &str, expect: &Expect) {
    let ccase = format!("{}|UciList:{}", case, text);
    ctx.eval(2);
    let r = crate::ctx::catch(|| {
        let a = MoveChain::from_uci_list(b.clone(), text);
        let mut ch = MoveChain::new(b.clone());
        let r2 = ch.push_uci_list(text);
        (a, r2.is_ok(), ch)
    });
    match r {
        Err(msg) => ctx.violation(&format!("panic:uci_list:{}", crate::ctx::panic_site(&msg)), &ccase, &msg),
        Ok((a, ok2, ch)) => {
            judge(ctx, &ccase, "from_uci_list", mp, legal, expect, a.as_ref().ok().map(|c| c.last()));
            judge(ctx, &ccase, "push_uci_list", mp, legal, expect, if ok2 { Some(ch.last()) } else { None });
            if a.is_ok() != ok2 {
                ctx.violation("entry_points_disagree", &ccase, &format!("from_uci_list ok={} push_uci_list ok={}", a.is_ok(), ok2));
            }
            if !ok2 && (ch.len() != 0 || full(ch.last()) != *snap) {
                ctx.violation("refused_push_changed_chain", &ccase, &full_diff(&full(ch.last()), snap));
            }
            if ok2 && ch.len() != 1 {
                ctx.violation("chain_len_after_accepted_push", &ccase, &format!("{}", ch.len()));
            }
        }
    }
}

fn cand_move(ctx: &mut Ctx, case: &str, b: &Board, snap: &Full, mp: &MPos, legal: &[MMove], lm: Move, expect: &Expect, tag: &str) {
    let d = format!("{}:{}", tag, crate::conv::move_desc(&lm));
    apply_all(ctx, case, &format!("Move:{}", d), b, snap, mp, legal, expect, &|| lm);
    // UCI values carry squares and promotion only: they denote whatever legal move has them
    let e_uci = match from_move(&lm) {
        Some(mm) => Expect::Exact(legal.iter().find(|m| m.from == mm.from && m.to == mm.to && m.kind.promo_letter() == mm.kind.promo_letter()).copied()),
        None => Expect::Exact(None),
    };
    let um = lm.uci();
    apply_all(ctx, case, &format!("uci::Move:{}", d), b, snap, mp, legal, &e_uci, &|| um);
    let text = lm.to_string();
    apply_all(ctx, case, &format!("Uci:{}", text), b, snap, mp, legal, &e_uci, &|| make::Uci(text.clone()));
    cand_list(ctx, case, b, snap, mp, legal, &text, &e_uci);
    // coordinate-form text handed to the SAN entry point: whatever is accepted must be legal
    apply_all(ctx, case, &format!("San:{}", text), b, snap, mp, legal, &Expect::Sound, &|| make::San(text.clone()));
    if let Ok(sm) = text.parse::<owlchess::moves::san::Move>() {
        apply_all(ctx, case, &format!("san::Move:{}", text), b, snap, mp, legal, &Expect::Sound, &|| sm);
    }
}

pub fn check_pos(ctx: &mut Ctx, mp: &MPos, b: &Board) {
    let case = format!("pos:{}", mfen::to_xfen(mp));
    let snap = full(b);
    // the position itself, obtained from a raw board / FEN, is valid
    let _ = check_valid_result(ctx, &case, "try_from", b);
    if let Some(Ok(fb)) = ctx.guard("from_fen", &case, || Board::from_fen(&b.as_fen())) {
        let _ = check_valid_result(ctx, &case, "from_fen", &fb);
    }
    let pseudo = mp.pseudo_moves();
    let legal: Vec<MMove> = pseudo.iter().copied().filter(|m| mp.is_legal_pseudo(m)).collect();

    // legal moves through every value kind
    let light = ctx.light();
    for m in legal.iter().take(if light { 3 } else { usize::MAX }) {
        let Some(lm) = to_move(m) else { continue };
        let e = Expect::Exact(Some(*m));
        cand_move(ctx, &case, b, &snap, mp, &legal, lm, &e, "legal");
        if let Some(Ok(sm)) = ctx.guard("san", &case, || lm.san(b)) {
            apply_all(ctx, &case, &format!("san::Move:{}", sm), b, &snap, mp, &legal, &e, &|| sm);
            let text = sm.to_string();
            apply_all(ctx, &case, &format!("San:{}", text), b, &snap, mp, &legal, &e, &|| make::San(text.clone()));
        }
        // the model's SAN text (equal to the library's when C09 holds)
        let mt = msan::san(mp, &legal, m, false);
        apply_all(ctx, &case, &format!("San:{}", mt), b, &snap, mp, &legal, &e, &|| make::San(mt.clone()));
    }
    // pseudo-legal but illegal
    let mut illegal_n = 0;
    for m in pseudo.iter().filter(|m| !legal.contains(m)).take(if light { 3 } else { usize::MAX }) {
        let Some(lm) = to_move(m) else { continue };
        illegal_n += 1;
        cand_move(ctx, &case, b, &snap, mp, &legal, lm, &Expect::Exact(None), "illegal");
        let mut as_if = legal.clone();
        as_if.push(*m);
        let t = msan::san_core(mp, &as_if, m, false);
        apply_all(ctx, &case, &format!("San:{}", t), b, &snap, mp, &legal, &Expect::Sound, &|| make::San(t.clone()));
        ctx.feature("cand_illegal_pseudo");
    }
    // well-formed but not even pseudo-legal
    let w = mp.white_to_move;
    let mut tries = 0;
    let mut found = 0;
    while found < (if light { 2 } else { 8 }) && tries < 400 {
        tries += 1;
        let k = *ctx.rng.pick(&MKind::ALL);
        let mn = if ctx.rng.chance(7, 8) { man(w, *ctx.rng.pick(b"PKNBRQ")) } else { man(!w, *ctx.rng.pick(b"PKNBRQ")) };
        // prefer source squares that really hold that man
        let from = if ctx.rng.chance(2, 3) {
            let own: Vec<Sq> = (0..64u8).filter(|&s| mp.at(s) == mn).collect();
            if own.is_empty() { ctx.rng.below(64) as u8 } else { *ctx.rng.pick(&own) }
        } else {
            ctx.rng.below(64) as u8
        };
        let to = ctx.rng.below(64) as u8;
        let cand = MMove { kind: k, man: mn, from, to };
        if pseudo.contains(&cand) {
            continue;
        }
        if let Ok(lm) = Move::new(move_kind(k), cell(mn), coord(from), coord(to)) {
            found += 1;
            cand_move(ctx, &case, b, &snap, mp, &legal, lm, &Expect::Exact(None), "nonsemilegal");
            ctx.feature("cand_not_semilegal");
        }
    }
    // the null move
    apply_all(ctx, &case, "Move:NULL", b, &snap, mp, &legal, &Expect::Exact(None), &|| Move::NULL);
    apply_all(ctx, &case, "uci::Move:Null", b, &snap, mp, &legal, &Expect::Exact(None), &|| uci::Move::Null);
    apply_all(ctx, &case, "Uci:0000", b, &snap, mp, &legal, &Expect::Exact(None), &|| make::Uci("0000"));
    apply_all(ctx, &case, "San:0000", b, &snap, mp, &legal, &Expect::Exact(None), &|| make::San("0000"));
    // UCI strings from the 20,480 space
    for _ in 0..(if light { 2 } else { 24 }) {
        let from = ctx.rng.below(64) as u8;
        let to = ctx.rng.below(64) as u8;
        let promo = if ctx.rng.chance(1, 4) { Some(*ctx.rng.pick(b"NBRQ")) } else { None };
        let mut t = format!("{}{}", sq_name(from), sq_name(to));
        if let Some(p) = promo {
            t.push(p.to_ascii_lowercase() as char);
        }
        let hit: Vec<&MMove> = legal.iter().filter(|m| m.from == from && m.to == to && m.kind.promo_letter() == promo).collect();
        let e = Expect::Exact(hit.first().map(|m| **m));
        apply_all(ctx, &case, &format!("Uci:{}", t), b, &snap, mp, &legal, &e, &|| make::Uci(t.clone()));
        apply_all(ctx, &case, &format!("San:{}", t), b, &snap, mp, &legal, &Expect::Sound, &|| make::San(t.clone()));
    }
    // SAN short forms and garbage
    let mut texts: Vec<String> = Vec::new();
    for f in 0..8u8 {
        for g in [f.wrapping_sub(1), f + 1] {
            if g < 8 {
                texts.push(format!("{}{}", (b'a' + f) as char, (b'a' + g) as char));
            }
        }
    }
    for _ in 0..8 {
        let base = if legal.is_empty() { "e4".to_string() } else { msan::san(mp, &legal, ctx.rng.pick(&legal), false) };
        texts.push(crate::gentext::mutate(&mut ctx.rng, &base, crate::gentext::SAN_ALPHABET));
        texts.push(crate::gentext::random_text(&mut ctx.rng, crate::gentext::SAN_ALPHABET, 6));
    }
    for t in texts.iter().take(if light { 3 } else { usize::MAX }) {
        apply_all(ctx, &case, &format!("San:{}", crate::ctx::hex(t.as_bytes())), b, &snap, mp, &legal, &Expect::Sound, &|| make::San(t.clone()));
        apply_all(ctx, &case, &format!("Uci:{}", crate::ctx::hex(t.as_bytes())), b, &snap, mp, &legal, &Expect::Sound, &|| make::Uci(t.clone()));
    }
    if illegal_n > 0 || legal.iter().any(|m| m.kind != MKind::Simple) || mp.halfmove >= 65534 || mp.fullmove >= 65534 {
        ctx.nontrivial(&mp.full_key());
    }
    if mp.halfmove == 65535 || mp.fullmove == 65535 {
        ctx.feature("counter_at_limit");
    }
    if mp.ep.is_some() && pseudo.iter().any(|m| m.kind == MKind::EnPassant && !legal.contains(m)) {
        ctx.feature("illegal_en_passant_candidate");
    }
}

/// A game played through randomly alternating safe entry points on one board and one chain.
pub fn history(ctx: &mut Ctx, start: &MPos, plies: usize) {
    if ctx.miri_full() {
        return;
    }
    let case = format!("hist:{}", mfen::to_xfen(start));
    let Ok(b0) = crate::conv::to_board(start) else { return };
    ctx.begin_case(&case);
    let mut cur = start.clone();
    let mut board = b0.clone();
    let mut log = String::new();
    let r = crate::ctx::catch(|| {
        let mut chain = MoveChain::new(b0.clone());
        for ply in 0..plies {
            let legal = cur.legal_moves();
            if legal.is_empty() {
                break;
            }
            // sometimes try something that must be refused first
            if ctx.rng.chance(1, 4) {
                let pseudo = cur.pseudo_moves();
                let bad: Vec<&MMove> = pseudo.iter().filter(|m| !legal.contains(m)).collect();
                let snap = full(&board);
                let refused = if let Some(m) = bad.first() {
                    let lm = to_move(m).unwrap();
                    lm.make_raw(&mut board).is_err() && chain.push(make::Uci(lm.to_string())).is_err()
                } else {
                    make::San("Qz9").make_raw(&mut board).is_err() && chain.push(Move::NULL).is_err()
                };
                ctx.eval(2);
                if !refused {
                    ctx.violation("history_illegal_accepted", &format!("{}|{}", case, log), "an illegal candidate was accepted mid-game");
                    return;
                }
                if full(&board) != snap || full(chain.last()) != snap {
                    ctx.violation("history_refusal_changed_state", &format!("{}|{}", case, log), &full_diff(&full(&board), &snap));
                    return;
                }
            }
            let m = crate::gen::pick_game_move(&mut ctx.rng, &cur, &legal);
            let lm = to_move(&m).unwrap();
            let san_text = msan::san(&cur, &legal, &m, false);
            let kind = ctx.rng.below(5);
            let (ok1, ok2, name) = match kind {
                0 => (lm.make_raw(&mut board).is_ok(), chain.push(lm).is_ok(), "Move"),
                1 => (lm.uci().make_raw(&mut board).is_ok(), chain.push(lm.uci()).is_ok(), "uci::Move"),
                2 => (make::Uci(lm.to_string()).make_raw(&mut board).is_ok(), chain.push(make::Uci(lm.to_string())).is_ok(), "Uci"),
                3 => match lm.san(&board) {
                    Ok(sm) => (sm.make_raw(&mut board).is_ok(), chain.push(sm).is_ok(), "san::Move"),
                    Err(_) => (false, false, "san::Move(unavailable)"),
                },
                _ => (make::San(san_text.as_str()).make_raw(&mut board).is_ok(), chain.push(make::San(san_text.as_str())).is_ok(), "San"),
            };
            log.push_str(&format!("{}:{} ", name, m.uci()));
            ctx.eval(2);
            ctx.feature(&format!("history_step_{}", name));
            if !ok1 || !ok2 {
                ctx.violation("history_legal_refused", &format!("{}|{}", case, log), &format!("ply {}: {} via {} refused (board {}, chain {})", ply, mv_str(&m), name, ok1, ok2));
                return;
            }
            cur = cur.apply(&m);
            for (how, bb) in [("history_board", &board), ("history_chain", chain.last())] {
                match check_valid_result(ctx, &format!("{}|{}", case, log), how, bb) {
                    Some(got) if got == cur => {}
                    Some(got) => {
                        ctx.violation("history_position_diverged", &format!("{}|{}", case, log), &format!("{}: {} want {}", how, mfen::to_xfen(&got), mfen::to_xfen(&cur)));
                        return;
                    }
                    None => return,
                }
            }
        }
        ctx.feature_max("max_history_plies", chain.len() as u64);
    });
    if let Err(msg) = r {
        ctx.violation(&format!("panic:history:{}", crate::ctx::panic_site(&msg)), &format!("{}|{}", case, log), &msg);
    }
    ctx.nontrivial(format!("{}{}", case, log).as_bytes());
    crate::stream::poll_hooks(ctx, &case);
}

/// Boards obtained from arbitrary FEN text: whatever is accepted must be a valid position.
fn fen_texts(ctx: &mut Ctx) {
    let mut bases: Vec<String> = crate::gentext::FEN_VARIANTS.iter().map(|s| s.to_string()).collect();
    bases.extend(crate::gen::FIXED_FENS.iter().map(|s| s.to_string()));
    let n = ctx.budget(300_000, 4_000_000);
    for i in 0..n {
        if ctx.miri_full() {
            break;
        }
        let base = ctx.rng.pick(&bases).clone();
        let t = if i % 5 == 0 { base } else { crate::gentext::mutate(&mut ctx.rng, &base, crate::gentext::FEN_ALPHABET) };
        let case = format!("fen:{}", crate::ctx::hex(t.as_bytes()));
        ctx.eval(1);
        if let Some(Ok(b)) = ctx.guard("from_fen_text", &case, || Board::from_fen(&t)) {
            if i % 64 == 0 {
                ctx.begin_case(&case);
            }
            ctx.feature("fen_text_accepted");
            let _ = check_valid_result(ctx, &case, "from_fen_text", &b);
            ctx.nontrivial(t.as_bytes());
        }
    }
}

pub fn run(ctx: &mut Ctx) {
    fen_texts(ctx);
    let n = ctx.budget(150_000, 2_000_000);
    let mut src = Sources::standard(n);
    src.three_man = n / 20;
    stream::run(ctx, &src, &mut check_pos);
    let starts: Vec<MPos> = if ctx.light() { crate::gen::fixed_positions_slice(ctx.shard * 3, 3).into_iter().map(|x| x.1).collect() } else { crate::gen::fixed_positions() };
    let games = ctx.budget(40_000, 500_000);
    for i in 0..games {
        let mut s = if i % 3 == 0 { starts[0].clone() } else { ctx.rng.pick(&starts).clone() };
        if ctx.rng.chance(1, 5) {
            s.halfmove = *ctx.rng.pick(&[65530u16, 65535, 98, 148]);
            s.fullmove = *ctx.rng.pick(&[65530u16, 65535, 1]);
        }
        let s = s.normalized();
        if s.is_valid() {
            let plies = 10 + ctx.rng.below(60);
            history(ctx, &s, plies);
        }
    }
    let _ = from_move;
}

pub fn replay(ctx: &mut Ctx, case: &str) -> bool {
    if let Some(h) = case.strip_prefix("fen:") {
        let Some(bytes) = crate::ctx::unhex(h) else { return false };
        let Ok(t) = String::from_utf8(bytes) else { return false };
        ctx.begin_case(case);
        if let Some(Ok(b)) = ctx.guard("from_fen_text", case, || Board::from_fen(&t)) {
            let _ = check_valid_result(ctx, case, "from_fen_text", &b);
        }
        return true;
    }
    if let Some(rest) = case.strip_prefix("hist:") {
        // histories depend on the PRNG stream; replay re-runs random histories from the same start
        let fen = rest.split('|').next().unwrap_or(rest);
        let Ok(p) = mfen::from_fen(fen) else { return false };
        for _ in 0..200 {
            history(ctx, &p, 70);
        }
        return true;
    }
    replay_pos(ctx, case.split('|').next().unwrap_or(case), &mut check_pos)
}
