//! Self-test of the reference model against published perft counts and hand-checked facts.
//! A failure makes the whole run inconclusive (never a violation).

use crate::mfen;
use crate::model::*;
use crate::msan;

const PERFT: &[(&str, &[u64])] = &[
    ("rnbqkbnr/pppppppp/8/8/8/8/PPPPPPPP/RNBQKBNR w KQkq - 0 1", &[20, 400, 8902, 197281]),
    ("r3k2r/p1ppqpb1/bn2pnp1/3PN3/1p2P3/2N2Q1p/PPPBBPPP/R3K2R w KQkq - 0 1", &[48, 2039, 97862]),
    ("8/2p5/3p4/KP5r/1R3p1k/8/4P1P1/8 w - - 0 1", &[14, 191, 2812, 43238]),
    ("r3k2r/Pppp1ppp/1b3nbN/nP6/BBP1P3/q4N2/Pp1P2PP/R2Q1RK1 w kq - 0 1", &[6, 264, 9467]),
    ("r2q1rk1/pP1p2pp/Q4n2/bbp1p3/Np6/1B3NBn/pPPP1PPP/R3K2R b KQ - 0 1", &[6, 264, 9467]),
    ("rnbq1k1r/pp1Pbppp/2p5/8/2B5/8/PPP1NnPP/RNBQK2R w KQ - 1 8", &[44, 1486, 62379]),
    ("r4rk1/1pp1qppp/p1np1n2/2b1p1B1/2B1P1b1/P1NP1N2/1PP1QPPP/R4RK1 w - - 0 10", &[46, 2079, 89890]),
];

/// (fen, uci of a legal move, expected SAN)
const SAN_TABLE: &[(&str, &str, &str)] = &[
    ("rnbqkbnr/pppppppp/8/8/8/8/PPPPPPPP/RNBQKBNR w KQkq - 0 1", "e2e4", "e4"),
    ("rnbqkbnr/pppppppp/8/8/8/8/PPPPPPPP/RNBQKBNR w KQkq - 0 1", "g1f3", "Nf3"),
    ("4k3/6K1/8/2N5/8/8/8/N7 w - - 0 1", "a1b3", "Nab3"),
    ("4k3/6K1/8/N7/8/8/8/N7 w - - 0 1", "a1b3", "N1b3"),
    ("4k3/6K1/8/N1N5/8/8/8/N1N5 w - - 0 1", "a1b3", "Na1b3"),
    ("4k3/6K1/8/N1N5/8/1r6/8/N1N5 w - - 0 1", "a1b3", "Na1xb3"),
    ("5k2/8/5K2/8/3R3R/8/8/b7 w - - 0 1", "h4f4", "Rf4"),
    ("1r5k/8/8/8/8/6p1/r7/5K2 b - - 0 1", "g3g2", "g2+"),
    ("1r5k/8/8/8/8/6p1/r7/5K2 b - - 0 1", "b8b1", "Rb1#"),
    ("2n2n1n/3P2P1/8/8/8/8/3K1k2/8 w - - 0 1", "g7f8r", "gxf8=R+"),
    ("2n2n1n/3P2P1/8/8/8/8/3K1k2/8 w - - 0 1", "d7d8n", "d8=N"),
    ("8/8/8/2PpP3/8/8/5k1K/8 w - d6 0 1", "c5d6", "cxd6"),
    ("r3k2r/8/8/8/8/8/8/R3K2R w KQkq - 0 1", "e1g1", "O-O"),
    ("r3k2r/8/8/8/8/8/8/R3K2R b KQkq - 0 1", "e8c8", "O-O-O"),
];

pub fn run() -> Result<u64, String> {
    let mut n = 0u64;
    for (fen, counts) in PERFT {
        let p = mfen::from_fen(fen)?;
        if !p.is_valid() {
            return Err(format!("perft position invalid per model: {}", fen));
        }
        if mfen::to_fen(&p) != *fen {
            return Err(format!("model FEN writer/reader disagree on {}", fen));
        }
        for (d, want) in counts.iter().enumerate() {
            let got = perft(&p, d as u32 + 1);
            if got != *want {
                return Err(format!("perft({}) of {} = {} want {}", d + 1, fen, got, want));
            }
            n += 1;
        }
    }
    for (fen, uci, want) in SAN_TABLE {
        let p = mfen::from_fen(fen)?;
        let legal = p.legal_moves();
        let m = legal.iter().find(|m| m.uci() == *uci).ok_or(format!("{} not legal in {}", uci, fen))?;
        let got = msan::san(&p, &legal, m, false);
        if got != *want {
            return Err(format!("model SAN of {} in {} = {} want {}", uci, fen, got, want));
        }
        match msan::tokenize(want) {
            Some(t) if msan::agrees(&t, m) => {}
            other => return Err(format!("tokenizer: {} -> {:?} does not agree with {}", want, other, uci)),
        }
        n += 1;
    }
    // the en-passant discovered check on the rank must be illegal in the model
    let p = mfen::from_fen("8/8/8/K2Pp2r/8/8/8/7k w - e6 0 1")?;
    if p.legal_moves().iter().any(|m| m.kind == MKind::EnPassant) {
        return Err("model allows en passant exposing the king on the rank".into());
    }
    if !p.pseudo_moves().iter().any(|m| m.kind == MKind::EnPassant) {
        return Err("model misses the pseudo-legal en passant".into());
    }
    n += 2;
    // outcome facts
    let facts: &[(&str, Option<MOutcome>)] = &[
        ("7k/5Q2/6K1/8/8/8/8/8 b - - 0 1", Some(MOutcome::Stalemate)),
        ("7k/6Q1/6K1/8/8/8/8/8 b - - 0 1", Some(MOutcome::Checkmate(true))),
        ("8/8/4k3/8/8/3KN3/8/8 w - - 0 1", Some(MOutcome::Insufficient)),
        ("8/8/4k3/8/8/3KNN2/8/8 w - - 0 1", None),
        ("8/8/4k3/4b3/8/3KB3/8/8 b - - 0 1", Some(MOutcome::Insufficient)),
        ("8/8/4k3/3b4/8/3KB3/8/8 b - - 0 1", None),
        ("NNK4k/8/8/8/8/8/8/8 w - - 100 80", Some(MOutcome::Moves50)),
        ("NNK4k/8/8/8/8/8/8/8 w - - 150 90", Some(MOutcome::Moves75)),
        ("NNK4k/8/8/8/8/8/8/8 w - - 99 80", None),
    ];
    for (fen, want) in facts {
        let p = mfen::from_fen(fen)?;
        if p.outcome() != *want {
            return Err(format!("model outcome of {} = {:?} want {:?}", fen, p.outcome(), want));
        }
        n += 1;
    }
    if is_light(0) || !is_light(7) || !is_light(56) || is_light(63) {
        return Err("square colours wrong (a1 and h8 are dark, h1 and a8 light)".into());
    }
    n += 1;
    // mirrors are involutions
    let p = mfen::from_fen("r3k2r/Pppp1ppp/1b3nbN/nP6/BBP1P3/q4N2/Pp1P2PP/R2Q1RK1 w kq - 0 1")?;
    if p.mirror_v().mirror_v() != p || p.mirror_h().mirror_h() != p {
        return Err("mirror is not an involution".into());
    }
    if perft(&p.mirror_v(), 2) != 264 {
        return Err("mirror changes perft".into());
    }
    n += 2;
    Ok(n)
}
