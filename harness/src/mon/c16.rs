//! C16 — attack and check queries agree with the rules on every position.

use super::*;
use crate::conv::{color, coord, msq};
use crate::stream::Sources;
use owlchess::movegen;
use owlchess::Board;

pub fn check_pos(ctx: &mut Ctx, mp: &MPos, b: &Board) {
    queries(ctx, mp, b, "");
    let can_castle = mp.pseudo_moves().iter().any(|m| matches!(m.kind, MKind::CastleK | MKind::CastleQ));
    if (can_castle && ctx.cases % 4 == 0) || ctx.cases % 40 == 0 || ctx.is_replay {
        history_walk(ctx, mp, b);
    }
    // the same queries on boards with a history: this board after every semilegal move has been
    // applied and undone on it (as a search does), and one successor reached by a real move
    if ctx.cases % 3 == 0 || ctx.is_replay {
        let mut bb = b.clone();
        let r = crate::ctx::catch(|| {
            for mv in owlchess::movegen::semilegal::gen_all(b).iter() {
                unsafe {
                    let u = owlchess::moves::make_move_unchecked(&mut bb, *mv);
                    owlchess::moves::unmake_move_unchecked(&mut bb, *mv, u);
                }
            }
        });
        if r.is_ok() {
            queries(ctx, mp, &bb, "|after_make_unmake_of_all_moves");
            ctx.feature("boards_with_history");
        }
        let legal = mp.legal_moves();
        if !legal.is_empty() {
            // prefer the special moves (their apply paths patch several sets at once)
            let special: Vec<MMove> = legal.iter().copied().filter(|m| m.kind != MKind::Simple).collect();
            let m = if !special.is_empty() && ctx.rng.chance(2, 3) { *ctx.rng.pick(&special) } else { *ctx.rng.pick(&legal) };
            if matches!(m.kind, MKind::CastleK | MKind::CastleQ) {
                ctx.feature("successor_after_castling");
            }
            if let Some(lm) = crate::conv::to_move(&m) {
                if let Some(Ok(nb)) = ctx.guard("make_move", &format!("pos:{}", mfen::to_xfen(mp)), || b.make_move(lm)) {
                    let want = mp.apply(&m);
                    if crate::conv::from_raw(nb.raw()) == want {
                        queries(ctx, &want, &nb, &format!("|after:{}", m.uci()));
                    }
                }
            }
        }
    }
}

/// A short game played in place on ONE board object (as a chain or a search does), with all 128
/// queries compared after every ply; starts with a castling or another special move when there is one.
fn history_walk(ctx: &mut Ctx, mp: &MPos, b: &Board) {
    use owlchess::moves::Make;
    let mut board = b.clone();
    let mut cur = mp.clone();
    let mut path = String::new();
    for ply in 0..14 {
        let legal = cur.legal_moves();
        if legal.is_empty() {
            break;
        }
        let castles: Vec<MMove> = legal.iter().copied().filter(|m| matches!(m.kind, MKind::CastleK | MKind::CastleQ)).collect();
        let m = if ply < 2 && !castles.is_empty() { *ctx.rng.pick(&castles) } else { crate::gen::pick_game_move(&mut ctx.rng, &cur, &legal) };
        let Some(lm) = crate::conv::to_move(&m) else { break };
        let case = format!("pos:{}|walk:{}", mfen::to_xfen(mp), path);
        match ctx.guard("make_raw", &case, || lm.make_raw(&mut board).is_ok()) {
            Some(true) => {}
            _ => break,
        }
        cur = cur.apply(&m);
        if crate::conv::from_raw(board.raw()) != cur {
            break; // C03's business
        }
        path.push_str(&m.uci());
        path.push(' ');
        queries(ctx, &cur, &board, &format!("|walk:{}", path));
    }
    ctx.feature("in_place_history_walks");
}

fn queries(ctx: &mut Ctx, mp: &MPos, b: &Board, suffix: &str) {
    let case = format!("pos:{}{}", mfen::to_xfen(mp), suffix);
    let mut attacked_any = 0u32;
    let mut multi = false;
    for s in 0..64u8 {
        for by_white in [true, false] {
            ctx.eval(1);
            let want: Vec<Sq> = mp.attackers(s, by_white);
            let qcase = format!("{}|{}:{}", case, sq_name(s), if by_white { 'w' } else { 'b' });
            let Some((flag, set)) = ctx.guard("attack_queries", &qcase, || {
                (movegen::is_cell_attacked(b, coord(s), color(by_white)), movegen::cell_attackers(b, coord(s), color(by_white)))
            }) else { continue };
            let mut got: Vec<Sq> = set.into_iter().map(msq).collect();
            got.sort();
            if got != want {
                ctx.violation("cell_attackers", &qcase, &format!("library {:?} rules {:?}", got.iter().map(|&x| sq_name(x)).collect::<Vec<_>>(), want.iter().map(|&x| sq_name(x)).collect::<Vec<_>>()));
            }
            if flag != !want.is_empty() {
                ctx.violation("is_cell_attacked", &qcase, &format!("library {} rules {}", flag, !want.is_empty()));
            }
            if flag != set.is_nonempty() {
                ctx.violation("attacked_vs_attackers", &qcase, "is_cell_attacked disagrees with cell_attackers().is_nonempty()");
            }
            if !want.is_empty() {
                attacked_any += 1;
            }
            if want.len() >= 3 {
                multi = true;
            }
            for &a in &want {
                if kind(mp.at(a)) == b'P' {
                    ctx.feature(if by_white { "white_pawn_attacker" } else { "black_pawn_attacker" });
                }
            }
        }
    }
    ctx.eval(3);
    let ks = mp.king_sq(mp.white_to_move).unwrap();
    let want_checkers = mp.attackers(ks, !mp.white_to_move);
    if let Some((chk, checkers, opp)) = ctx.guard("check_queries", &case, || (b.is_check(), b.checkers(), b.is_opponent_king_attacked())) {
        let mut got: Vec<Sq> = checkers.into_iter().map(msq).collect();
        got.sort();
        if chk != !want_checkers.is_empty() {
            ctx.violation("is_check", &case, &format!("library {} rules {}", chk, !want_checkers.is_empty()));
        }
        if got != want_checkers {
            ctx.violation("checkers", &case, &format!("library {:?} rules {:?}", got, want_checkers));
        }
        if opp {
            ctx.violation("opponent_king_attacked_on_valid", &case, "is_opponent_king_attacked true on a validated board");
        }
    }
    match want_checkers.len() {
        0 => {}
        1 => ctx.feature("single_check"),
        _ => ctx.feature("double_check"),
    }
    if multi {
        ctx.feature("square_with_3plus_attackers");
    }
    if attacked_any > 0 {
        ctx.nontrivial(&mp.rep_key());
    }
}

pub fn run(ctx: &mut Ctx) {
    let n = ctx.budget(1_500_000, 20_000_000);
    let mut src = Sources::standard(n);
    src.three_man = if ctx.tier == crate::ctx::Tier::Thorough && ctx.config != "miri" { u64::MAX } else { n / 5 };
    stream::run(ctx, &src, &mut check_pos);
}

pub fn replay(ctx: &mut Ctx, case: &str) -> bool {
    replay_pos(ctx, case.split('|').next().unwrap_or(case), &mut check_pos)
}
