//! C05 — incremental Zobrist hash and occupancy sets equal a from-scratch recomputation.

use super::*;
use crate::conv::{cell, coord, full, full_diff, full_from_scratch, to_move, to_raw};
use crate::stream::Sources;
use owlchess::chain::MoveChain;
use owlchess::moves::{self, make, Make};
use owlchess::{Board, CastlingRights, Color, RawBoard};
use std::collections::HashMap;

thread_local! {
    static TRANSPOSE: std::cell::RefCell<HashMap<u64, (u64, String)>> = std::cell::RefCell::new(HashMap::new());
}

fn boundary(ctx: &mut Ctx, b: &Board, case: &str, how: &str) {
    ctx.eval(1);
    let have = full(b);
    let want = full_from_scratch(b.raw());
    if have != want {
        ctx.violation(&format!("derived_state_at_boundary_{}", how), case, &full_diff(&have, &want));
    }
    // path independence: same (squares, side, rights, mark) => same hash, whatever the route and counters
    let key = crate::rng::fingerprint(&crate::conv::from_raw(b.raw()).rep_key());
    let conflict = TRANSPOSE.with(|t| {
        let mut t = t.borrow_mut();
        match t.get(&key) {
            Some((h, first)) if *h != b.zobrist_hash() => Some((*h, first.clone())),
            Some(_) => None,
            None => {
                if t.len() < 1_500_000 {
                    let w = if t.len() < 150_000 { case.to_string() } else { String::new() };
                    t.insert(key, (b.zobrist_hash(), w));
                }
                None
            }
        }
    });
    if let Some((h, first)) = conflict {
        ctx.violation("same_position_different_hash", case, &format!("hash {:#x} here, {:#x} when first seen at {}", b.zobrist_hash(), h, first));
    }
}

/// Exhaustive: the from-scratch hash is XOR-linear in exactly the stated features, ignores the
/// counters, and all single-feature key differences are non-zero.
fn key_structure(ctx: &mut Ctx) {
    let empty = RawBoard::empty();
    let h0 = empty.zobrist_hash();
    let case = "keys";
    let mut n = 0u64;
    // man keys per square
    let mut man_key = [[0u64; 13]; 64];
    for s in 0..64u8 {
        let mut vals: Vec<(u64, u8)> = vec![(0, EMPTY)];
        for (i, m) in MEN.iter().enumerate() {
            let mut r = empty;
            r.put(coord(s), cell(*m));
            let k = r.zobrist_hash() ^ h0;
            man_key[s as usize][i + 1] = k;
            vals.push((k, *m));
        }
        for i in 0..vals.len() {
            for j in i + 1..vals.len() {
                n += 1;
                if vals[i].0 == vals[j].0 {
                    ctx.violation("single_feature_same_hash_square", &format!("keys:{}:{}{}", sq_name(s), vals[i].1 as char, vals[j].1 as char), "two different contents of one square hash alike");
                }
            }
        }
    }
    let mut rb = empty;
    rb.side = Color::Black;
    let side_key = rb.zobrist_hash() ^ h0;
    n += 1;
    if side_key == 0 {
        ctx.violation("single_feature_same_hash_side", "keys:side", "side to move does not change the hash");
    }
    let mut castle_key = [0u64; 16];
    for i in 0..16 {
        let mut r = empty;
        r.castling = CastlingRights::from_index(i);
        castle_key[i] = r.zobrist_hash() ^ h0;
    }
    for i in 0..16usize {
        for bit in 0..4 {
            let j = i ^ (1 << bit);
            if i < j {
                n += 1;
                if castle_key[i] == castle_key[j] {
                    ctx.violation("single_feature_same_hash_castling", &format!("keys:castling:{}:{}", i, j), "rights sets differing in one right hash alike");
                }
            }
        }
    }
    let mut mark_key = [0u64; 64];
    for s in 0..64u8 {
        let mut r = empty;
        r.ep_source = Some(coord(s));
        mark_key[s as usize] = r.zobrist_hash() ^ h0;
    }
    for rank in [3u8, 4] {
        let mut vals: Vec<(u64, String)> = vec![(0, "-".into())];
        for f in 0..8u8 {
            vals.push((mark_key[sq(f, rank) as usize], sq_name(sq(f, rank))));
        }
        for i in 0..vals.len() {
            for j in i + 1..vals.len() {
                n += 1;
                if vals[i].0 == vals[j].0 {
                    ctx.violation("single_feature_same_hash_mark", &format!("keys:mark:{}:{}", vals[i].1, vals[j].1), "two en-passant states hash alike");
                }
            }
        }
    }
    ctx.eval(n);
    ctx.feature_n("key_differences_checked", n);
    ctx.exhaustive_parts.push("all single-feature Zobrist key differences (13 contents x 64 squares pairwise, side, 32 one-right pairs, 9 mark states per relevant rank)".into());

    // linearity + counters ignored, on random raw boards (any contents, valid or not)
    let rounds = ctx.budget(300_000, 4_000_000);
    for _ in 0..rounds {
        let mut r = empty;
        let mut want = h0;
        let dens = 1 + ctx.rng.below(8);
        for s in 0..64u8 {
            if ctx.rng.below(8) < dens {
                let i = 1 + ctx.rng.below(12);
                r.put(coord(s), cell(MEN[i - 1]));
                want ^= man_key[s as usize][i];
            }
        }
        if ctx.rng.chance(1, 2) {
            r.side = Color::Black;
            want ^= side_key;
        }
        let ci = ctx.rng.below(16);
        r.castling = CastlingRights::from_index(ci);
        want ^= castle_key[ci];
        if ctx.rng.chance(1, 2) {
            let s = ctx.rng.below(64) as u8;
            r.ep_source = Some(coord(s));
            want ^= mark_key[s as usize];
        }
        r.move_counter = ctx.rng.below(65536) as u16;
        r.move_number = ctx.rng.below(65536) as u16;
        ctx.eval(2);
        let got = r.zobrist_hash();
        if got != want {
            ctx.violation("scratch_hash_not_linear", &format!("raw:{}", mfen::to_xfen(&crate::conv::from_raw(&r))), &format!("zobrist_hash {:#x}, XOR of feature keys {:#x}", got, want));
        }
        let mut r2 = r;
        r2.move_counter = ctx.rng.below(65536) as u16;
        r2.move_number = ctx.rng.below(65536) as u16;
        if r2.zobrist_hash() != got {
            ctx.violation("scratch_hash_depends_on_counters", case, "hash changed with the counters");
        }
    }
}

pub fn check_pos(ctx: &mut Ctx, mp: &MPos, b: &Board) {
    let case = format!("pos:{}", mfen::to_xfen(mp));
    boundary(ctx, b, &case, "try_from");
    if let Some(Ok(fb)) = ctx.guard("from_fen", &case, || Board::from_fen(&b.as_fen())) {
        boundary(ctx, &fb, &case, "from_fen");
    }
    let legal = mp.legal_moves();
    let pseudo = mp.pseudo_moves();
    // every legal successor through four entry points; the observer watches the internals
    for m in &legal {
        let Some(lm) = to_move(m) else { continue };
        let mcase = format!("{}|{}", case, m.uci());
        if let Some(Ok(nb)) = ctx.guard("make_move", &mcase, || b.make_move(lm)) {
            boundary(ctx, &nb, &mcase, "make_move");
            // flip one feature on a sampled successor: counters must not matter
            if ctx.rng.chance(1, 16) {
                let mut r = *nb.raw();
                r.move_counter = r.move_counter.wrapping_add(7);
                r.move_number = r.move_number.wrapping_add(3);
                if let Ok(b2) = Board::try_from(r) {
                    if b2.zobrist_hash() != nb.zobrist_hash() {
                        ctx.violation("hash_depends_on_counters", &mcase, "same position with other counters hashes differently");
                    }
                }
            }
        }
        if ctx.rng.chance(1, 3) {
            let u = m.uci();
            if let Some(Ok(nb)) = ctx.guard("uci_make", &mcase, || make::Uci(u.as_str()).make(b)) {
                boundary(ctx, &nb, &mcase, "uci_make");
            }
            if let Some(Ok(s)) = ctx.guard("san", &mcase, || lm.san(b)) {
                let text = s.to_string();
                if let Some(Ok(nb)) = ctx.guard("san_make", &mcase, || make::San(text.as_str()).make(b)) {
                    boundary(ctx, &nb, &mcase, "san_make");
                }
            }
        }
    }
    // refused applications (TryUnchecked rollback) and queries that make moves internally
    let mut bb = b.clone();
    for m in pseudo.iter().filter(|m| !legal.contains(m)).take(6) {
        if let Some(lm) = to_move(m) {
            if lm.is_semilegal(b) {
                let _ = ctx.guard("refused_make_raw", &case, || lm.make_raw(&mut bb).is_ok());
                boundary(ctx, &bb, &case, "after_refused_make_raw");
                if full(&bb) != full(b) {
                    bb = b.clone();
                }
            }
        }
    }
    let _ = ctx.guard("queries", &case, || (b.has_legal_moves(), b.calc_outcome()));

    // a short chain history with pushes and pops; the chain mutates one board in place
    if !legal.is_empty() && ctx.rng.chance(1, 4) {
        let r = crate::ctx::catch(|| {
            let mut ch = MoveChain::new(b.clone());
            let mut cur = mp.clone();
            let mut line: Vec<MPos> = vec![cur.clone()];
            let steps = 4 + ctx.rng.below(20);
            for _ in 0..steps {
                let lg = cur.legal_moves();
                let pop = ctx.rng.chance(1, 4) && line.len() > 1;
                if pop || lg.is_empty() {
                    if ch.pop().is_none() {
                        break;
                    }
                    line.pop();
                    cur = line.last().unwrap().clone();
                } else {
                    let m = crate::gen::pick_game_move(&mut ctx.rng, &cur, &lg);
                    let Some(lm) = to_move(&m) else { break };
                    if ch.push(lm).is_err() {
                        break;
                    }
                    cur = cur.apply(&m);
                    line.push(cur.clone());
                }
                boundary(ctx, ch.last(), &case, "chain");
            }
            let mut w = ch.walk();
            while let Some((wb, _)) = w.next() {
                let f = full(wb);
                let s = full_from_scratch(wb.raw());
                if f != s {
                    ctx.violation("derived_state_in_walker", &case, &full_diff(&f, &s));
                }
            }
            while let Some((wb, _)) = w.prev() {
                let f = full(wb);
                let s = full_from_scratch(wb.raw());
                if f != s {
                    ctx.violation("derived_state_in_walker", &case, &full_diff(&f, &s));
                }
            }
        });
        if let Err(msg) = r {
            ctx.violation(&format!("panic:chain:{}", crate::ctx::panic_site(&msg)), &case, &msg);
        }
        ctx.feature("chain_histories");
    }
    // the null move through the unchecked primitives and through the chain (observer + boundary)
    if !mp.in_check() {
        let r = crate::ctx::catch(|| {
            let mut bb = b.clone();
            let u = unsafe { moves::make_move_unchecked(&mut bb, owlchess::Move::NULL) };
            let mid = full(&bb) == full_from_scratch(bb.raw());
            unsafe { moves::unmake_move_unchecked(&mut bb, owlchess::Move::NULL, u) };
            let mut ch = MoveChain::new(b.clone());
            unsafe { ch.push_unchecked(owlchess::Move::NULL) };
            let mid2 = full(ch.last()) == full_from_scratch(ch.last().raw());
            ch.pop();
            (mid && mid2, bb, ch)
        });
        match r {
            Ok((mid_ok, bb, ch)) => {
                ctx.feature("null_moves");
                if !mid_ok {
                    ctx.violation("derived_state_after_null_move", &case, "stored hash or sets differ from recomputation after a null move");
                }
                boundary(ctx, &bb, &case, "after_null_undo");
                boundary(ctx, ch.last(), &case, "after_null_pop");
            }
            Err(msg) => ctx.violation(&format!("panic:null:{}", crate::ctx::panic_site(&msg)), &case, &msg),
        }
    }
    // nested unchecked apply/undo with transient illegal states (observer checks every step)
    let r = crate::ctx::catch(|| {
        let mut bb = b.clone();
        let mut st = Vec::new();
        for _ in 0..6 {
            let l = owlchess::movegen::semilegal::gen_all(&bb);
            if l.is_empty() {
                break;
            }
            let mv = l[ctx.rng.below(l.len())];
            let u = unsafe { moves::make_move_unchecked(&mut bb, mv) };
            if bb.is_opponent_king_attacked() {
                unsafe { moves::unmake_move_unchecked(&mut bb, mv, u) };
                continue;
            }
            st.push((mv, u));
        }
        while let Some((mv, u)) = st.pop() {
            unsafe { moves::unmake_move_unchecked(&mut bb, mv, u) };
        }
        full(&bb) == full(b)
    });
    match r {
        Ok(true) => {}
        Ok(false) => ctx.violation("nested_walk_not_restored", &case, "state after nested apply/undo differs"),
        Err(msg) => ctx.violation(&format!("panic:nested:{}", crate::ctx::panic_site(&msg)), &case, &msg),
    }
    for m in &legal {
        if m.kind != MKind::Simple {
            ctx.feature(&format!("path_{:?}{}", m.kind, if mp.is_capture(m) { "_capture" } else { "" }));
        } else if mp.is_capture(m) {
            ctx.feature("path_Simple_capture");
        }
    }
    if mp.ep.is_some() {
        ctx.feature("moves_from_marked_position");
    }
    if legal.iter().any(|m| m.kind != MKind::Simple) {
        ctx.nontrivial(&mp.rep_key());
    }
    let _ = to_raw;
}

pub fn run(ctx: &mut Ctx) {
    if ctx.shard == 0 || ctx.config == "miri" {
        key_structure(ctx);
    }
    let n = ctx.budget(600_000, 8_000_000);
    let mut src = Sources::standard(n);
    src.walks = (n / 60).max(1);
    src.walk_plies = 120;
    stream::run(ctx, &src, &mut check_pos);
    let t = TRANSPOSE.with(|t| t.borrow().len());
    ctx.feature_n("transposition_table_entries", t as u64);
}

pub fn replay(ctx: &mut Ctx, case: &str) -> bool {
    if case.starts_with("keys") || case.starts_with("raw:") {
        key_structure(ctx);
        return true;
    }
    replay_pos(ctx, case.split('|').next().unwrap_or(case), &mut check_pos)
}
