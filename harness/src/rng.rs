//! Small seeded PRNG (splitmix64 seeding + xoshiro256**). No external crates.

#[derive(Clone, Debug)]
pub struct Rng {
    s: [u64; 4],
}

pub fn splitmix(x: &mut u64) -> u64 {
    *x = x.wrapping_add(0x9E37_79B9_7F4A_7C15);
    let mut z = *x;
    z = (z ^ (z >> 30)).wrapping_mul(0xBF58_476D_1CE4_E5B9);
    z = (z ^ (z >> 27)).wrapping_mul(0x94D0_49BB_1331_11EB);
    z ^ (z >> 31)
}

pub fn mix3(a: u64, b: u64, c: u64) -> u64 {
    let mut x = a ^ 0xA5A5_5A5A_DEAD_BEEF;
    let mut r = splitmix(&mut x);
    x ^= b.wrapping_mul(0x9E37_79B9_7F4A_7C15);
    r ^= splitmix(&mut x);
    x ^= c.wrapping_mul(0xC2B2_AE3D_27D4_EB4F);
    r ^= splitmix(&mut x);
    r
}

impl Rng {
    pub fn new(seed: u64) -> Rng {
        let mut x = seed;
        let s = [
            splitmix(&mut x),
            splitmix(&mut x),
            splitmix(&mut x),
            splitmix(&mut x),
        ];
        Rng { s }
    }

    pub fn next_u64(&mut self) -> u64 {
        let result = self.s[1].wrapping_mul(5).rotate_left(7).wrapping_mul(9);
        let t = self.s[1] << 17;
        self.s[2] ^= self.s[0];
        self.s[3] ^= self.s[1];
        self.s[1] ^= self.s[2];
        self.s[0] ^= self.s[3];
        self.s[2] ^= t;
        self.s[3] = self.s[3].rotate_left(45);
        result
    }

    /// Uniform in 0..n (n > 0)
    pub fn below(&mut self, n: usize) -> usize {
        debug_assert!(n > 0);
        ((self.next_u64() >> 11) % (n as u64)) as usize
    }

    pub fn range(&mut self, lo: usize, hi_incl: usize) -> usize {
        lo + self.below(hi_incl - lo + 1)
    }

    pub fn chance(&mut self, num: usize, den: usize) -> bool {
        self.below(den) < num
    }

    pub fn pick<'a, T>(&mut self, xs: &'a [T]) -> &'a T {
        &xs[self.below(xs.len())]
    }

    pub fn shuffle<T>(&mut self, xs: &mut [T]) {
        for i in (1..xs.len()).rev() {
            let j = self.below(i + 1);
            xs.swap(i, j);
        }
    }
}

/// 64-bit FNV-1a style fingerprint with extra avalanche, used for distinct-case counting.
pub fn fingerprint(bytes: &[u8]) -> u64 {
    let mut h: u64 = 0xcbf2_9ce4_8422_2325;
    for &b in bytes {
        h ^= b as u64;
        h = h.wrapping_mul(0x0000_0100_0000_01B3);
    }
    let mut x = h;
    splitmix(&mut x)
}
