//! G6: hostile text generators — hand-written variants, single-edit mutation, multi-byte
//! splicing, exhaustive short-string enumeration, random UTF-8 and long inputs.

use crate::rng::Rng;

pub const FEN_ALPHABET: &str = "rnbqkpRNBQKP12345678/ wb-KQkqabcdefgh036.+09";
pub const UCI_ALPHABET: &str = "abcdefgh12345678nbrq0 NBRQ";
pub const SAN_ALPHABET: &str = "abcdefgh12345678NBRQKx=+#-O0:P";
pub const MULTIBYTE: [&str; 6] = ["\u{e9}", "\u{20ac}", "\u{1F600}", "\u{2003}", "\u{a0}", "\u{2659}"];
pub const CONTROL: [char; 6] = ['\0', '\t', '\n', '\r', '\u{7f}', '\u{1b}'];

/// The symbol set for the exhaustive short-string enumeration (grammar-relevant ASCII,
/// whitespace, NUL and three multi-byte characters of 2, 3 and 4 bytes).
pub const SYMBOLS: [&str; 45] = [
    "a", "b", "c", "d", "e", "f", "g", "h", "1", "2", "3", "4", "5", "6", "7", "8", "0", "9", "N", "B", "R", "Q", "K", "P",
    "n", "q", "k", "r", "p", "w", "x", "=", "+", "#", "-", "O", ":", "/", " ", ".", "\t", "\0", "\u{e9}", "\u{20ac}", "\u{1F600}",
];

pub const FEN_VARIANTS: &[&str] = &[
    "rnbqkbnr/pppppppp/8/8/8/8/PPPPPPPP/RNBQKBNR w KQkq - 0 1",
    "rnbqkbnr/pppppppp/8/8/8/8/PPPPPPPP/RNBQKBNR w KQkq -",
    "rnbqkbnr/pppppppp/8/8/8/8/PPPPPPPP/RNBQKBNR w KQkq - 10",
    "rnbqkbnr/pppppppp/8/8/8/8/PPPPPPPP/RNBQKBNR w KQkq - 0 1 ",
    "rnbqkbnr/pppppppp/8/8/8/8/PPPPPPPP/RNBQKBNR  w KQkq - 0 1",
    " rnbqkbnr/pppppppp/8/8/8/8/PPPPPPPP/RNBQKBNR w KQkq - 0 1",
    "rnbqkbnr/pppppppp/8/8/8/8/PPPPPPPP/RNBQKBNR w KQkq - 0 1 x",
    "rnbqkbnr/pppppppp/8/8/8/8/PPPPPPPP/RNBQKBNR w KQkq - +5 1",
    "rnbqkbnr/pppppppp/8/8/8/8/PPPPPPPP/RNBQKBNR w KQkq - 007 01",
    "rnbqkbnr/pppppppp/8/8/8/8/PPPPPPPP/RNBQKBNR w KQkq - 65535 65535",
    "rnbqkbnr/pppppppp/8/8/8/8/PPPPPPPP/RNBQKBNR w KQkq - 65536 1",
    "rnbqkbnr/pppppppp/8/8/8/8/PPPPPPPP/RNBQKBNR w KQkq - -0 1",
    "rnbqkbnr/pppppppp/8/8/8/8/PPPPPPPP/RNBQKBNR w KQkq - 0 -1",
    "rnbqkbnr/pppppppp/8/8/8/8/PPPPPPPP/RNBQKBNR w qkQK - 0 1",
    "rnbqkbnr/pppppppp/8/8/8/8/PPPPPPPP/RNBQKBNR w KK - 0 1",
    "rnbqkbnr/pppppppp/8/8/8/8/PPPPPPPP/RNBQKBNR w  - 0 1",
    "rnbqkbnr/pppppppp/8/8/8/8/PPPPPPPP/RNBQKBNR W KQkq - 0 1",
    "rnbqkbnr/pppppppp/......../8/8/8/PPPPPPPP/RNBQKBNR w KQkq - 0 1",
    "rnbqkbnr/pppppppp/44/8/8/8/PPPPPPPP/RNBQKBNR w KQkq - 0 1",
    "rnbqkbnr/pppppppp/1111111 1/8/8/8/PPPPPPPP/RNBQKBNR w KQkq - 0 1",
    "rnbqkbnr/pppppppp/9/8/8/8/PPPPPPPP/RNBQKBNR w KQkq - 0 1",
    "rnbqkbnr/pppppppp/0/8/8/8/PPPPPPPP/RNBQKBNR w KQkq - 0 1",
    "rnbqkbnr/pppppppp/8/8/8/8/PPPPPPPP w KQkq - 0 1",
    "rnbqkbnr/pppppppp/8/8/8/8/PPPPPPPP/RNBQKBNR/8 w KQkq - 0 1",
    "rnbqkbnr/pppppppp/8/8/8/8/PPPPPPPP/RNBQKBNRR w KQkq - 0 1",
    "rnbqkbnr/pppp1ppp/8/4p3/4P3/8/PPPP1PPP/RNBQKBNR w KQkq e6 0 2",
    "rnbqkbnr/pppp1ppp/8/4p3/4P3/8/PPPP1PPP/RNBQKBNR w KQkq e3 0 2",
    "rnbqkbnr/pppp1ppp/8/4p3/4P3/8/PPPP1PPP/RNBQKBNR b KQkq e3 0 2",
    "rnbqkbnr/pppp1ppp/8/4p3/4P3/8/PPPP1PPP/RNBQKBNR b KQkq e6 0 2",
    "rnbqkbnr/pppp1ppp/8/4p3/4P3/8/PPPP1PPP/RNBQKBNR w KQkq e9 0 2",
    "rnbqkbnr/pppp1ppp/8/4p3/4P3/8/PPPP1PPP/RNBQKBNR w KQkq i6 0 2",
    "rnbqkbnr/pppp1ppp/8/4p3/4P3/8/PPPP1PPP/RNBQKBNR w KQkq e 0 2",
    "rnbqkbnr/pppp1ppp/8/4p3/4P3/8/PPPP1PPP/RNBQKBNR w KQkq e66 0 2",
    "8/8/8/8/8/8/8/8 w - - 0 1",
    "8/8/8/8/8/8/8/8 w - a6 0 1",
    "K7/8/8/8/8/8/8/7k w - h6 0 1",
    "pppppppp/8/8/8/8/8/8/PPPPPPPP b KQkq h3 65535 0",
    "",
    " ",
    "/",
    "////////",
    "8/8/8/8/8/8/8/8",
    "w",
    "- - - - - -",
    "\u{e9}nbqkbnr/pppppppp/8/8/8/8/PPPPPPPP/RNBQKBNR w KQkq - 0 1",
    "rnbqkbnr/pppppppp/8/8/8/8/PPPPPPPP/RNBQKBNR w KQkq \u{20ac} 0 1",
    "rnbqkbnr/pppppppp/8/8/8/8/PPPPPPPP/RNBQKBNR\u{a0}w KQkq - 0 1",
    "rnbqkbnr/pppppppp/8/8/8/8/PPPPPPPP/RNBQKBNR\tw\tKQkq\t-\t0\t1",
    "rnbqkbnr/pppppppp/8/8/8/8/PPPPPPPP/RNBQKBNR w KQkq - 0 1\n",
    "rnbqkbnr/pppppppp/8/8/8/8/PPPPPPPP/RNBQKBNR w KQkq - 0 1\0",
];

fn rand_insert(rng: &mut Rng, alphabet: &str) -> String {
    match rng.below(10) {
        0 => rng.pick(&MULTIBYTE).to_string(),
        1 => rng.pick(&CONTROL).to_string(),
        _ => {
            let a: Vec<char> = alphabet.chars().collect();
            rng.pick(&a).to_string()
        }
    }
}

/// One or two random edits of `base`.
pub fn mutate(rng: &mut Rng, base: &str, alphabet: &str) -> String {
    let mut cs: Vec<String> = base.chars().map(|c| c.to_string()).collect();
    let edits = 1 + rng.below(2);
    for _ in 0..edits {
        let n = cs.len();
        match rng.below(9) {
            0 if n > 0 => {
                cs.remove(rng.below(n));
            }
            1 => {
                let ins = rand_insert(rng, alphabet);
                cs.insert(rng.below(n + 1), ins);
            }
            2 if n > 0 => {
                let i = rng.below(n);
                cs[i] = rand_insert(rng, alphabet);
            }
            3 if n > 1 => {
                let i = rng.below(n - 1);
                cs.swap(i, i + 1);
            }
            4 if n > 0 => {
                let i = rng.below(n);
                let c = cs[i].clone();
                cs.insert(i, c);
            }
            5 if n > 0 => {
                cs.truncate(rng.below(n + 1));
            }
            6 => {
                // drop, duplicate or swap a whole space-separated field
                let s: String = cs.concat();
                let mut fields: Vec<&str> = s.split(' ').collect();
                if !fields.is_empty() {
                    let i = rng.below(fields.len());
                    match rng.below(3) {
                        0 => {
                            fields.remove(i);
                        }
                        1 => {
                            let f = fields[i];
                            fields.insert(i, f);
                        }
                        _ => {
                            let j = rng.below(fields.len());
                            fields.swap(i, j);
                        }
                    }
                }
                let joined = fields.join(" ");
                cs = joined.chars().map(|c| c.to_string()).collect();
            }
            7 => {
                let ins = rng.pick(&MULTIBYTE).to_string();
                cs.insert(rng.below(n + 1), ins);
            }
            _ => {
                // numeric tweak: append digits to the end
                let d = ["0", "9", "65535", "65536", "99999999999999999999"];
                cs.push(rng.pick(&d).to_string());
            }
        }
    }
    cs.concat()
}

/// Every string of at most `maxlen` symbols (including the empty string).
pub fn enumerate(symbols: &[&str], maxlen: usize, f: &mut dyn FnMut(&str)) {
    fn rec(symbols: &[&str], left: usize, cur: &mut String, f: &mut dyn FnMut(&str)) {
        f(cur);
        if left == 0 {
            return;
        }
        for s in symbols {
            let l = cur.len();
            cur.push_str(s);
            rec(symbols, left - 1, cur, f);
            cur.truncate(l);
        }
    }
    let mut cur = String::new();
    rec(symbols, maxlen, &mut cur, f);
}

/// Every string of exactly `len` symbols.
pub fn enumerate_exact(symbols: &[&str], len: usize, f: &mut dyn FnMut(&str)) {
    fn rec(symbols: &[&str], left: usize, cur: &mut String, f: &mut dyn FnMut(&str)) {
        if left == 0 {
            f(cur);
            return;
        }
        for s in symbols {
            let l = cur.len();
            cur.push_str(s);
            rec(symbols, left - 1, cur, f);
            cur.truncate(l);
        }
    }
    let mut cur = String::new();
    rec(symbols, len, &mut cur, f);
}

/// Random well-formed UTF-8 of up to `max_chars` characters, biased to the alphabet.
pub fn random_text(rng: &mut Rng, alphabet: &str, max_chars: usize) -> String {
    let n = rng.below(max_chars + 1);
    let a: Vec<char> = alphabet.chars().collect();
    let mut s = String::new();
    for _ in 0..n {
        match rng.below(12) {
            0 => { let m: &str = *rng.pick(&MULTIBYTE); s.push_str(m) }
            1 => s.push(*rng.pick(&CONTROL)),
            2 => {
                // arbitrary scalar value
                let v = rng.below(0x11_0000) as u32;
                if let Some(c) = char::from_u32(v) {
                    s.push(c);
                }
            }
            _ => s.push(*rng.pick(&a)),
        }
    }
    s
}

/// Splice each multi-byte character at every character boundary of `base`.
pub fn splice_multibyte(base: &str, f: &mut dyn FnMut(&str)) {
    let idx: Vec<usize> = base.char_indices().map(|(i, _)| i).chain(std::iter::once(base.len())).collect();
    for mb in MULTIBYTE.iter().take(3) {
        for &i in &idx {
            let mut s = String::with_capacity(base.len() + 4);
            s.push_str(&base[..i]);
            s.push_str(mb);
            s.push_str(&base[i..]);
            f(&s);
            // and as a replacement of the following character
            if i < base.len() {
                let next = base[i..].chars().next().unwrap().len_utf8();
                let mut s = String::with_capacity(base.len() + 4);
                s.push_str(&base[..i]);
                s.push_str(mb);
                s.push_str(&base[i + next..]);
                f(&s);
            }
        }
    }
}

/// Truncations of `base` at every character boundary.
pub fn truncations(base: &str, f: &mut dyn FnMut(&str)) {
    for (i, _) in base.char_indices() {
        f(&base[..i]);
    }
    f(base);
}
