//! G6: hostile text generators (filled in with C12).
