//! Independent FEN writer, reader and strict canonical-form recogniser for the model.
//!
//! "xfen" is the harness's own total encoding of raw positions (used in case descriptions and
//! replay files): standard FEN except that the en-passant field is `-` or `@<square of the
//! marked pawn>`, so that marks on any square (valid or not) can be written down.

use crate::model::*;

fn placement(p: &MPos) -> String {
    let mut s = String::new();
    for r in (0..8u8).rev() {
        let mut run = 0;
        for f in 0..8u8 {
            let c = p.at(sq(f, r));
            if c == EMPTY {
                run += 1;
            } else {
                if run > 0 {
                    s.push((b'0' + run) as char);
                    run = 0;
                }
                s.push(c as char);
            }
        }
        if run > 0 {
            s.push((b'0' + run) as char);
        }
        if r > 0 {
            s.push('/');
        }
    }
    s
}

fn castle_str(c: &[bool; 4]) -> String {
    let mut s = String::new();
    for (i, ch) in "KQkq".chars().enumerate() {
        if c[i] {
            s.push(ch);
        }
    }
    if s.is_empty() {
        s.push('-');
    }
    s
}

/// Standard FEN. The en-passant field is the square behind the marked pawn as seen from the
/// side to move (rank 6 for White to move, rank 3 for Black to move), whatever rank the mark is on.
pub fn to_fen(p: &MPos) -> String {
    let ep = match p.ep {
        None => "-".to_string(),
        Some(m) => sq_name(sq(file_of(m), if p.white_to_move { 5 } else { 2 })),
    };
    format!(
        "{} {} {} {} {} {}",
        placement(p),
        if p.white_to_move { 'w' } else { 'b' },
        castle_str(&p.castle),
        ep,
        p.halfmove,
        p.fullmove
    )
}

pub fn to_xfen(p: &MPos) -> String {
    let ep = match p.ep {
        None => "-".to_string(),
        Some(m) => format!("@{}", sq_name(m)),
    };
    format!(
        "{} {} {} {} {} {}",
        placement(p),
        if p.white_to_move { 'w' } else { 'b' },
        castle_str(&p.castle),
        ep,
        p.halfmove,
        p.fullmove
    )
}

fn parse_u16_strict(s: &str) -> Result<u16, String> {
    if s.is_empty() || !s.bytes().all(|b| b.is_ascii_digit()) {
        return Err(format!("bad number {:?}", s));
    }
    if s.len() > 1 && s.starts_with('0') {
        return Err(format!("leading zero in {:?}", s));
    }
    s.parse::<u16>().map_err(|e| format!("{:?}: {}", s, e))
}

/// Strict reader: exactly six single-space separated fields. Accepts both the standard
/// en-passant field and the `@sq` form. This is the harness's independent FEN reader.
pub fn from_fen(text: &str) -> Result<MPos, String> {
    let fields: Vec<&str> = text.split(' ').collect();
    if fields.len() != 6 {
        return Err(format!("{} fields", fields.len()));
    }
    let mut p = MPos::empty();
    let ranks: Vec<&str> = fields[0].split('/').collect();
    if ranks.len() != 8 {
        return Err(format!("{} ranks", ranks.len()));
    }
    for (i, rk) in ranks.iter().enumerate() {
        let r = 7 - i as u8;
        let mut f = 0u8;
        let mut prev_digit = false;
        for ch in rk.bytes() {
            if (b'1'..=b'8').contains(&ch) {
                if prev_digit {
                    return Err("adjacent digits".into());
                }
                prev_digit = true;
                f += ch - b'0';
                if f > 8 {
                    return Err("rank too long".into());
                }
            } else if b"PNBRQKpnbrqk".contains(&ch) {
                prev_digit = false;
                if f >= 8 {
                    return Err("rank too long".into());
                }
                p.sq[sq(f, r) as usize] = ch;
                f += 1;
            } else {
                return Err(format!("bad placement char {:?}", ch as char));
            }
        }
        if f != 8 {
            return Err("rank too short".into());
        }
    }
    p.white_to_move = match fields[1] {
        "w" => true,
        "b" => false,
        x => return Err(format!("bad side {:?}", x)),
    };
    if fields[2] != "-" {
        if fields[2].is_empty() {
            return Err("empty castling".into());
        }
        let mut last = -1i32;
        for ch in fields[2].chars() {
            let idx = match ch {
                'K' => 0,
                'Q' => 1,
                'k' => 2,
                'q' => 3,
                _ => return Err(format!("bad castling char {:?}", ch)),
            };
            if idx as i32 <= last {
                return Err("castling letters out of order or repeated".into());
            }
            last = idx as i32;
            p.castle[idx] = true;
        }
    }
    p.ep = if fields[3] == "-" {
        None
    } else if let Some(rest) = fields[3].strip_prefix('@') {
        Some(parse_sq(rest).ok_or_else(|| format!("bad mark {:?}", rest))?)
    } else {
        let t = parse_sq(fields[3]).ok_or_else(|| format!("bad ep {:?}", fields[3]))?;
        let (want_rank, mark_rank) = if p.white_to_move { (5, 4) } else { (2, 3) };
        if rank_of(t) != want_rank {
            return Err("ep square on wrong rank for side to move".into());
        }
        Some(sq(file_of(t), mark_rank))
    };
    p.halfmove = parse_u16_strict(fields[4])?;
    p.fullmove = parse_u16_strict(fields[5])?;
    Ok(p)
}

/// Canonical six-field FEN record? (Stricter than `from_fen`: no `@` form.)
pub fn check_canonical(text: &str) -> Result<(), String> {
    if !text.is_ascii() {
        return Err("non-ascii".into());
    }
    if text.contains('@') {
        return Err("non-standard ep field".into());
    }
    if text.starts_with(' ') || text.ends_with(' ') || text.contains("  ") {
        return Err("stray spaces".into());
    }
    from_fen(text).map(|_| ())
}

pub fn pretty(p: &MPos) -> String {
    to_xfen(p)
}
