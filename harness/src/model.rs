//! Reference model of the rules of chess.
//!
//! Deliberately naive: a mailbox of ASCII piece letters, ray walking, copy-make legality.
//! It shares no code, tables or types with owlchess. Squares are numbered a1 = 0, b1 = 1, ...,
//! h8 = 63 (owlchess numbers a8 = 0), so even the indexing is independent; conversion to
//! owlchess values goes through (file, rank) pairs only (see conv.rs).

pub type Sq = u8;

pub const EMPTY: u8 = b'.';

#[inline]
pub fn file_of(s: Sq) -> u8 {
    s & 7
}
#[inline]
pub fn rank_of(s: Sq) -> u8 {
    s >> 3
}
#[inline]
pub fn sq(file: u8, rank: u8) -> Sq {
    debug_assert!(file < 8 && rank < 8);
    rank * 8 + file
}
#[inline]
pub fn is_white(p: u8) -> bool {
    p.is_ascii_uppercase()
}
#[inline]
pub fn is_black(p: u8) -> bool {
    p.is_ascii_lowercase()
}
#[inline]
pub fn kind(p: u8) -> u8 {
    p.to_ascii_uppercase()
}
#[inline]
pub fn man(white: bool, k: u8) -> u8 {
    if white {
        k.to_ascii_uppercase()
    } else {
        k.to_ascii_lowercase()
    }
}
pub fn sq_name(s: Sq) -> String {
    let mut r = String::new();
    r.push((b'a' + file_of(s)) as char);
    r.push((b'1' + rank_of(s)) as char);
    r
}
pub fn parse_sq(s: &str) -> Option<Sq> {
    let b = s.as_bytes();
    if b.len() != 2 || !(b'a'..=b'h').contains(&b[0]) || !(b'1'..=b'8').contains(&b[1]) {
        return None;
    }
    Some(sq(b[0] - b'a', b[1] - b'1'))
}
/// a1 is dark; a square is light when file + rank (both from 0) is odd.
#[inline]
pub fn is_light(s: Sq) -> bool {
    (file_of(s) + rank_of(s)) % 2 == 1
}

pub fn step(s: Sq, df: i8, dr: i8) -> Option<Sq> {
    let f = file_of(s) as i8 + df;
    let r = rank_of(s) as i8 + dr;
    if (0..8).contains(&f) && (0..8).contains(&r) {
        Some(sq(f as u8, r as u8))
    } else {
        None
    }
}

pub const KNIGHT_D: [(i8, i8); 8] = [
    (1, 2),
    (2, 1),
    (2, -1),
    (1, -2),
    (-1, -2),
    (-2, -1),
    (-2, 1),
    (-1, 2),
];
pub const KING_D: [(i8, i8); 8] = [
    (1, 0),
    (1, 1),
    (0, 1),
    (-1, 1),
    (-1, 0),
    (-1, -1),
    (0, -1),
    (1, -1),
];
pub const BISHOP_D: [(i8, i8); 4] = [(1, 1), (1, -1), (-1, -1), (-1, 1)];
pub const ROOK_D: [(i8, i8); 4] = [(1, 0), (0, 1), (-1, 0), (0, -1)];

#[derive(Copy, Clone, Debug, PartialEq, Eq, Hash, PartialOrd, Ord)]
pub enum MKind {
    Simple,
    CastleK,
    CastleQ,
    Double,
    EnPassant,
    PromoN,
    PromoB,
    PromoR,
    PromoQ,
}

impl MKind {
    pub fn promo_letter(self) -> Option<u8> {
        match self {
            MKind::PromoN => Some(b'N'),
            MKind::PromoB => Some(b'B'),
            MKind::PromoR => Some(b'R'),
            MKind::PromoQ => Some(b'Q'),
            _ => None,
        }
    }
    pub fn is_promo(self) -> bool {
        self.promo_letter().is_some()
    }
    pub const ALL: [MKind; 9] = [
        MKind::Simple,
        MKind::CastleK,
        MKind::CastleQ,
        MKind::Double,
        MKind::EnPassant,
        MKind::PromoN,
        MKind::PromoB,
        MKind::PromoR,
        MKind::PromoQ,
    ];
}

#[derive(Copy, Clone, Debug, PartialEq, Eq, Hash, PartialOrd, Ord)]
pub struct MMove {
    pub kind: MKind,
    /// The man that moves (ASCII letter, case = colour)
    pub man: u8,
    pub from: Sq,
    pub to: Sq,
}

impl MMove {
    pub fn uci(&self) -> String {
        let mut s = sq_name(self.from);
        s.push_str(&sq_name(self.to));
        if let Some(p) = self.kind.promo_letter() {
            s.push(p.to_ascii_lowercase() as char);
        }
        s
    }
}

#[derive(Clone, Debug, PartialEq, Eq, Hash)]
pub struct MPos {
    pub sq: [u8; 64],
    pub white_to_move: bool,
    /// K, Q, k, q
    pub castle: [bool; 4],
    /// Square of the pawn that has just made a double step (the "en-passant mark")
    pub ep: Option<Sq>,
    pub halfmove: u16,
    pub fullmove: u16,
}

#[derive(Clone, Debug, PartialEq, Eq, Hash, PartialOrd, Ord)]
pub enum Invalid {
    InvalidEnpassant(Sq),
    TooManyPieces(bool),
    NoKing(bool),
    TooManyKings(bool),
    InvalidPawn(Sq),
    OpponentKingAttacked,
}

#[derive(Copy, Clone, Debug, PartialEq, Eq, Hash)]
pub enum MOutcome {
    /// winner is white?
    Checkmate(bool),
    Stalemate,
    Insufficient,
    Moves75,
    Moves50,
}

impl MPos {
    pub fn empty() -> MPos {
        MPos {
            sq: [EMPTY; 64],
            white_to_move: true,
            castle: [false; 4],
            ep: None,
            halfmove: 0,
            fullmove: 1,
        }
    }

    pub fn initial() -> MPos {
        let mut p = MPos::empty();
        let back = b"RNBQKBNR";
        for f in 0..8u8 {
            p.sq[sq(f, 0) as usize] = back[f as usize];
            p.sq[sq(f, 1) as usize] = b'P';
            p.sq[sq(f, 6) as usize] = b'p';
            p.sq[sq(f, 7) as usize] = back[f as usize].to_ascii_lowercase();
        }
        p.castle = [true; 4];
        p
    }

    #[inline]
    pub fn at(&self, s: Sq) -> u8 {
        self.sq[s as usize]
    }

    /// Key of the repetition-relevant part of the position (squares, side, rights, mark).
    pub fn rep_key(&self) -> Vec<u8> {
        let mut v = Vec::with_capacity(72);
        v.extend_from_slice(&self.sq);
        v.push(self.white_to_move as u8);
        for c in self.castle {
            v.push(c as u8);
        }
        v.push(match self.ep {
            Some(s) => s + 1,
            None => 0,
        });
        v
    }

    pub fn full_key(&self) -> Vec<u8> {
        let mut v = self.rep_key();
        v.extend_from_slice(&self.halfmove.to_le_bytes());
        v.extend_from_slice(&self.fullmove.to_le_bytes());
        v
    }

    pub fn king_sq(&self, white: bool) -> Option<Sq> {
        let k = man(white, b'K');
        (0..64u8).find(|&s| self.at(s) == k)
    }

    /// Does the man standing on `from` attack `target` (capture pattern on the current
    /// occupancy; the content of `target` is irrelevant; en passant is not an attack)?
    pub fn man_attacks(&self, from: Sq, target: Sq) -> bool {
        let p = self.at(from);
        if p == EMPTY || from == target {
            return false;
        }
        match kind(p) {
            b'P' => {
                let dr = if is_white(p) { 1 } else { -1 };
                step(from, -1, dr) == Some(target) || step(from, 1, dr) == Some(target)
            }
            b'N' => KNIGHT_D.iter().any(|&(df, dr)| step(from, df, dr) == Some(target)),
            b'K' => KING_D.iter().any(|&(df, dr)| step(from, df, dr) == Some(target)),
            b'B' => self.slides_to(from, target, &BISHOP_D),
            b'R' => self.slides_to(from, target, &ROOK_D),
            b'Q' => self.slides_to(from, target, &BISHOP_D) || self.slides_to(from, target, &ROOK_D),
            _ => false,
        }
    }

    fn slides_to(&self, from: Sq, target: Sq, dirs: &[(i8, i8)]) -> bool {
        for &(df, dr) in dirs {
            let mut cur = from;
            while let Some(n) = step(cur, df, dr) {
                if n == target {
                    return true;
                }
                if self.at(n) != EMPTY {
                    break;
                }
                cur = n;
            }
        }
        false
    }

    pub fn attackers(&self, target: Sq, by_white: bool) -> Vec<Sq> {
        let mut v = Vec::new();
        for s in 0..64u8 {
            let p = self.at(s);
            if p != EMPTY && is_white(p) == by_white && self.man_attacks(s, target) {
                v.push(s);
            }
        }
        v
    }

    pub fn is_attacked(&self, target: Sq, by_white: bool) -> bool {
        !self.attackers(target, by_white).is_empty()
    }

    pub fn in_check(&self) -> bool {
        match self.king_sq(self.white_to_move) {
            Some(k) => self.is_attacked(k, !self.white_to_move),
            None => false,
        }
    }

    /// Pseudo-legal moves: everything the rules allow except that the mover's king may be
    /// left attacked. Castling requires: right, king and rook at home, empty path, king not in
    /// check, transit square not attacked (destination safety is a legality matter).
    pub fn pseudo_moves(&self) -> Vec<MMove> {
        let w = self.white_to_move;
        let mut out = Vec::new();
        for s in 0..64u8 {
            let p = self.at(s);
            if p == EMPTY || is_white(p) != w {
                continue;
            }
            match kind(p) {
                b'P' => self.pawn_moves(s, p, &mut out),
                b'N' => self.leaper_moves(s, p, &KNIGHT_D, &mut out),
                b'K' => self.leaper_moves(s, p, &KING_D, &mut out),
                b'B' => self.slider_moves(s, p, &BISHOP_D, &mut out),
                b'R' => self.slider_moves(s, p, &ROOK_D, &mut out),
                b'Q' => {
                    self.slider_moves(s, p, &BISHOP_D, &mut out);
                    self.slider_moves(s, p, &ROOK_D, &mut out);
                }
                _ => {}
            }
        }
        self.castling_moves(&mut out);
        out
    }

    fn own(&self, p: u8) -> bool {
        p != EMPTY && is_white(p) == self.white_to_move
    }
    fn enemy(&self, p: u8) -> bool {
        p != EMPTY && is_white(p) != self.white_to_move
    }

    fn push_pawn(&self, from: Sq, to: Sq, p: u8, out: &mut Vec<MMove>) {
        let last = if is_white(p) { 7 } else { 0 };
        if rank_of(to) == last {
            for k in [MKind::PromoN, MKind::PromoB, MKind::PromoR, MKind::PromoQ] {
                out.push(MMove { kind: k, man: p, from, to });
            }
        } else {
            out.push(MMove { kind: MKind::Simple, man: p, from, to });
        }
    }

    fn pawn_moves(&self, s: Sq, p: u8, out: &mut Vec<MMove>) {
        let w = is_white(p);
        let dr: i8 = if w { 1 } else { -1 };
        let start_rank = if w { 1 } else { 6 };
        if let Some(one) = step(s, 0, dr) {
            if self.at(one) == EMPTY {
                self.push_pawn(s, one, p, out);
                if rank_of(s) == start_rank {
                    if let Some(two) = step(one, 0, dr) {
                        if self.at(two) == EMPTY {
                            out.push(MMove { kind: MKind::Double, man: p, from: s, to: two });
                        }
                    }
                }
            }
        }
        for df in [-1i8, 1] {
            if let Some(t) = step(s, df, dr) {
                if self.enemy(self.at(t)) {
                    self.push_pawn(s, t, p, out);
                }
            }
        }
        if let Some(m) = self.ep {
            // the marked pawn stands beside us; we capture onto the square behind it
            let enemy_pawn = man(!w, b'P');
            if self.at(m) == enemy_pawn
                && rank_of(m) == rank_of(s)
                && (file_of(m) as i8 - file_of(s) as i8).abs() == 1
            {
                if let Some(t) = step(m, 0, dr) {
                    if self.at(t) == EMPTY {
                        out.push(MMove { kind: MKind::EnPassant, man: p, from: s, to: t });
                    }
                }
            }
        }
    }

    fn leaper_moves(&self, s: Sq, p: u8, d: &[(i8, i8)], out: &mut Vec<MMove>) {
        for &(df, dr) in d {
            if let Some(t) = step(s, df, dr) {
                if !self.own(self.at(t)) {
                    out.push(MMove { kind: MKind::Simple, man: p, from: s, to: t });
                }
            }
        }
    }

    fn slider_moves(&self, s: Sq, p: u8, d: &[(i8, i8)], out: &mut Vec<MMove>) {
        for &(df, dr) in d {
            let mut cur = s;
            while let Some(t) = step(cur, df, dr) {
                let q = self.at(t);
                if self.own(q) {
                    break;
                }
                out.push(MMove { kind: MKind::Simple, man: p, from: s, to: t });
                if q != EMPTY {
                    break;
                }
                cur = t;
            }
        }
    }

    fn castling_moves(&self, out: &mut Vec<MMove>) {
        let w = self.white_to_move;
        let r = if w { 0 } else { 7 };
        let king = man(w, b'K');
        let rook = man(w, b'R');
        let e = sq(4, r);
        if self.at(e) != king {
            return;
        }
        let (ks, qs) = if w { (self.castle[0], self.castle[1]) } else { (self.castle[2], self.castle[3]) };
        if ks
            && self.at(sq(7, r)) == rook
            && self.at(sq(5, r)) == EMPTY
            && self.at(sq(6, r)) == EMPTY
            && !self.is_attacked(e, !w)
            && !self.is_attacked(sq(5, r), !w)
        {
            out.push(MMove { kind: MKind::CastleK, man: king, from: e, to: sq(6, r) });
        }
        if qs
            && self.at(sq(0, r)) == rook
            && self.at(sq(1, r)) == EMPTY
            && self.at(sq(2, r)) == EMPTY
            && self.at(sq(3, r)) == EMPTY
            && !self.is_attacked(e, !w)
            && !self.is_attacked(sq(3, r), !w)
        {
            out.push(MMove { kind: MKind::CastleQ, man: king, from: e, to: sq(2, r) });
        }
    }

    /// The position after `m` (which must be pseudo-legal here), per the rules.
    pub fn apply(&self, m: &MMove) -> MPos {
        let mut n = self.clone();
        let w = self.white_to_move;
        let p = self.at(m.from);
        let captured = self.at(m.to);
        let mut is_capture = captured != EMPTY;
        n.sq[m.from as usize] = EMPTY;
        n.sq[m.to as usize] = p;
        n.ep = None;
        match m.kind {
            MKind::Simple => {}
            MKind::Double => {
                n.ep = Some(m.to);
            }
            MKind::EnPassant => {
                // remove the pawn beside the destination (on the mover's origin rank)
                let victim = sq(file_of(m.to), rank_of(m.from));
                n.sq[victim as usize] = EMPTY;
                is_capture = true;
            }
            MKind::CastleK => {
                let r = rank_of(m.from);
                n.sq[sq(7, r) as usize] = EMPTY;
                n.sq[sq(5, r) as usize] = man(w, b'R');
            }
            MKind::CastleQ => {
                let r = rank_of(m.from);
                n.sq[sq(0, r) as usize] = EMPTY;
                n.sq[sq(3, r) as usize] = man(w, b'R');
            }
            MKind::PromoN | MKind::PromoB | MKind::PromoR | MKind::PromoQ => {
                n.sq[m.to as usize] = man(w, m.kind.promo_letter().unwrap());
            }
        }
        // castling rights: a king or rook leaving its home square, or anything landing on a
        // rook home square, removes the corresponding right
        for &s in &[m.from, m.to] {
            match s {
                4 => {
                    n.castle[0] = false;
                    n.castle[1] = false;
                }
                0 => n.castle[1] = false,
                7 => n.castle[0] = false,
                60 => {
                    n.castle[2] = false;
                    n.castle[3] = false;
                }
                56 => n.castle[3] = false,
                63 => n.castle[2] = false,
                _ => {}
            }
        }
        if kind(p) == b'P' || is_capture {
            n.halfmove = 0;
        } else {
            n.halfmove = self.halfmove.saturating_add(1);
        }
        if !w {
            n.fullmove = self.fullmove.saturating_add(1);
        }
        n.white_to_move = !w;
        n
    }

    /// Position after a null move (side flips, mark cleared, clock +1, number +1 after Black).
    pub fn apply_null(&self) -> MPos {
        let mut n = self.clone();
        n.ep = None;
        n.halfmove = self.halfmove.saturating_add(1);
        if !self.white_to_move {
            n.fullmove = self.fullmove.saturating_add(1);
        }
        n.white_to_move = !self.white_to_move;
        n
    }

    pub fn is_legal_pseudo(&self, m: &MMove) -> bool {
        let n = self.apply(m);
        match n.king_sq(self.white_to_move) {
            Some(k) => !n.is_attacked(k, !self.white_to_move),
            None => true,
        }
    }

    pub fn legal_moves(&self) -> Vec<MMove> {
        self.pseudo_moves().into_iter().filter(|m| self.is_legal_pseudo(m)).collect()
    }

    pub fn is_capture(&self, m: &MMove) -> bool {
        m.kind == MKind::EnPassant || self.at(m.to) != EMPTY
    }

    pub fn count(&self, white: bool) -> usize {
        self.sq.iter().filter(|&&p| p != EMPTY && is_white(p) == white).count()
    }

    /// All reasons for which this raw position is invalid (empty = valid).
    pub fn invalid_reasons(&self) -> Vec<Invalid> {
        let mut r = Vec::new();
        if let Some(m) = self.ep {
            let want = if self.white_to_move { 4 } else { 3 };
            if rank_of(m) != want {
                r.push(Invalid::InvalidEnpassant(m));
            }
        }
        for w in [true, false] {
            if self.count(w) > 16 {
                r.push(Invalid::TooManyPieces(w));
            }
            let kings = self.sq.iter().filter(|&&p| p == man(w, b'K')).count();
            if kings == 0 {
                r.push(Invalid::NoKing(w));
            }
            if kings > 1 {
                r.push(Invalid::TooManyKings(w));
            }
        }
        for s in 0..64u8 {
            if kind(self.at(s)) == b'P' && (rank_of(s) == 0 || rank_of(s) == 7) {
                r.push(Invalid::InvalidPawn(s));
            }
        }
        // side not to move in check (any of its kings attacked by the side to move)
        let opp = !self.white_to_move;
        for s in 0..64u8 {
            if self.at(s) == man(opp, b'K') && self.is_attacked(s, self.white_to_move) {
                r.push(Invalid::OpponentKingAttacked);
                break;
            }
        }
        r
    }

    pub fn is_valid(&self) -> bool {
        self.invalid_reasons().is_empty()
    }

    /// Normalisation done by validation: drop rights without king/rook at home, drop a mark
    /// with no enemy pawn on it or with an occupied square behind it.
    pub fn normalized(&self) -> MPos {
        let mut n = self.clone();
        let wk = self.at(4) == b'K';
        let bk = self.at(60) == b'k';
        n.castle[0] &= wk && self.at(7) == b'R';
        n.castle[1] &= wk && self.at(0) == b'R';
        n.castle[2] &= bk && self.at(63) == b'r';
        n.castle[3] &= bk && self.at(56) == b'r';
        if let Some(m) = self.ep {
            let enemy_pawn = man(!self.white_to_move, b'P');
            // square the pawn passed over: one step back from the pawn's point of view
            let dr: i8 = if self.white_to_move { 1 } else { -1 };
            let behind = step(m, 0, dr);
            let keep = self.at(m) == enemy_pawn && behind.map(|b| self.at(b) == EMPTY).unwrap_or(false);
            if !keep {
                n.ep = None;
            }
        }
        n
    }

    pub fn insufficient_material(&self) -> bool {
        let mut others: Vec<(u8, Sq)> = Vec::new();
        for s in 0..64u8 {
            let p = self.at(s);
            if p != EMPTY && kind(p) != b'K' {
                others.push((kind(p), s));
            }
        }
        if others.is_empty() {
            return true;
        }
        if others.len() == 1 && others[0].0 == b'N' {
            return true;
        }
        if others.iter().all(|&(k, _)| k == b'B') {
            let first = is_light(others[0].1);
            return others.iter().all(|&(_, s)| is_light(s) == first);
        }
        false
    }

    pub fn draw_simple(&self) -> Option<MOutcome> {
        if self.insufficient_material() {
            return Some(MOutcome::Insufficient);
        }
        if self.halfmove >= 150 {
            return Some(MOutcome::Moves75);
        }
        if self.halfmove >= 100 {
            return Some(MOutcome::Moves50);
        }
        None
    }

    pub fn outcome(&self) -> Option<MOutcome> {
        if self.legal_moves().is_empty() {
            return Some(if self.in_check() {
                MOutcome::Checkmate(!self.white_to_move)
            } else {
                MOutcome::Stalemate
            });
        }
        self.draw_simple()
    }

    /// Colour-swapping vertical mirror.
    pub fn mirror_v(&self) -> MPos {
        let mut n = MPos::empty();
        for s in 0..64u8 {
            let p = self.at(s);
            let t = sq(file_of(s), 7 - rank_of(s));
            n.sq[t as usize] = if p == EMPTY {
                EMPTY
            } else if is_white(p) {
                p.to_ascii_lowercase()
            } else {
                p.to_ascii_uppercase()
            };
        }
        n.white_to_move = !self.white_to_move;
        n.castle = [self.castle[2], self.castle[3], self.castle[0], self.castle[1]];
        n.ep = self.ep.map(|m| sq(file_of(m), 7 - rank_of(m)));
        n.halfmove = self.halfmove;
        n.fullmove = self.fullmove;
        n
    }

    /// Left-right mirror (only meaningful without castling rights).
    pub fn mirror_h(&self) -> MPos {
        let mut n = self.clone();
        for s in 0..64u8 {
            n.sq[sq(7 - file_of(s), rank_of(s)) as usize] = self.at(s);
        }
        n.ep = self.ep.map(|m| sq(7 - file_of(m), rank_of(m)));
        n
    }
}

pub fn mirror_v_move(m: &MMove) -> MMove {
    let flip = |s: Sq| sq(file_of(s), 7 - rank_of(s));
    MMove {
        kind: m.kind,
        man: if is_white(m.man) { m.man.to_ascii_lowercase() } else { m.man.to_ascii_uppercase() },
        from: flip(m.from),
        to: flip(m.to),
    }
}

pub fn mirror_h_move(m: &MMove) -> MMove {
    let flip = |s: Sq| sq(7 - file_of(s), rank_of(s));
    MMove { kind: m.kind, man: m.man, from: flip(m.from), to: flip(m.to) }
}

pub fn perft(p: &MPos, depth: u32) -> u64 {
    if depth == 0 {
        return 1;
    }
    let moves = p.legal_moves();
    if depth == 1 {
        return moves.len() as u64;
    }
    moves.iter().map(|m| perft(&p.apply(m), depth - 1)).sum()
}

/// Geometric well-formedness of a non-null move tuple, independent of any position:
/// is there *some* position in which this (kind, man, from, to) could be pseudo-legal?
pub fn well_formed(k: MKind, m: u8, from: Sq, to: Sq) -> bool {
    if m == EMPTY || from == to {
        return false;
    }
    let w = is_white(m);
    let df = (file_of(to) as i8 - file_of(from) as i8).abs();
    let dr_signed = rank_of(to) as i8 - rank_of(from) as i8;
    let dr = dr_signed.abs();
    let fwd: i8 = if w { 1 } else { -1 };
    let pk = kind(m);
    match k {
        MKind::Simple => match pk {
            b'P' => {
                df <= 1
                    && dr_signed == fwd
                    && rank_of(from) != 0
                    && rank_of(from) != 7
                    && rank_of(to) != 0
                    && rank_of(to) != 7
            }
            b'K' => df <= 1 && dr <= 1,
            b'N' => (df == 1 && dr == 2) || (df == 2 && dr == 1),
            b'B' => df == dr,
            b'R' => df == 0 || dr == 0,
            b'Q' => df == dr || df == 0 || dr == 0,
            _ => false,
        },
        MKind::CastleK => pk == b'K' && from == sq(4, if w { 0 } else { 7 }) && to == sq(6, if w { 0 } else { 7 }),
        MKind::CastleQ => pk == b'K' && from == sq(4, if w { 0 } else { 7 }) && to == sq(2, if w { 0 } else { 7 }),
        MKind::Double => {
            pk == b'P' && df == 0 && rank_of(from) == if w { 1 } else { 6 } && rank_of(to) == if w { 3 } else { 4 }
        }
        MKind::EnPassant => {
            pk == b'P' && df == 1 && rank_of(from) == if w { 4 } else { 3 } && rank_of(to) == if w { 5 } else { 2 }
        }
        MKind::PromoN | MKind::PromoB | MKind::PromoR | MKind::PromoQ => {
            pk == b'P' && df <= 1 && rank_of(from) == if w { 6 } else { 1 } && rank_of(to) == if w { 7 } else { 0 }
        }
    }
}

pub const MEN: [u8; 12] = *b"PKNBRQpknbrq";
