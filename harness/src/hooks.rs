//! Observers installed into owlchess's `verif-hooks` feature.
//!
//! * apply/undo observer: after every internal `do_make_move` / `do_unmake_move` (including the
//!   library's own internal uses) the stored hash and the 16 occupancy sets are compared with a
//!   recomputation from the raw squares.
//! * move-list observer: tracks the maximum length of the unchecked move list and panics
//!   (unwinding out of the library, *before* the out-of-bounds write) when a push would exceed
//!   the capacity.
//!
//! State is thread-local; every shard process is single-threaded.

use crate::conv::{full, full_diff, full_from_scratch};
use owlchess::moves::Move;
use owlchess::verif_hooks::{self, Event};
use owlchess::Board;
use std::cell::{Cell, RefCell};

thread_local! {
    static MAKES: Cell<u64> = const { Cell::new(0) };
    static UNMAKES: Cell<u64> = const { Cell::new(0) };
    static LIST_PUSHES: Cell<u64> = const { Cell::new(0) };
    static LIST_MAX: Cell<usize> = const { Cell::new(0) };
    static LIST_CAP: Cell<usize> = const { Cell::new(0) };
    static DRIFT: RefCell<Vec<String>> = const { RefCell::new(Vec::new()) };
    static OVERFLOW: RefCell<Vec<String>> = const { RefCell::new(Vec::new()) };
    static CHECK_DERIVED: Cell<bool> = const { Cell::new(true) };
}

fn observer(ev: Event, b: &Board, mv: Move) {
    match ev {
        Event::Make => MAKES.with(|c| c.set(c.get() + 1)),
        Event::Unmake => UNMAKES.with(|c| c.set(c.get() + 1)),
    }
    if !CHECK_DERIVED.with(|c| c.get()) {
        return;
    }
    let have = full(b);
    let want = full_from_scratch(b.raw());
    if have != want {
        DRIFT.with(|d| {
            let mut d = d.borrow_mut();
            if d.len() < 8 {
                d.push(format!(
                    "after {:?} of {}: stored vs recomputed: {}",
                    ev,
                    crate::conv::move_desc(&mv),
                    full_diff(&have, &want)
                ));
            }
        });
    }
}

fn list_observer(len: usize, cap: usize) {
    LIST_PUSHES.with(|c| c.set(c.get() + 1));
    LIST_CAP.with(|c| c.set(cap));
    // length after this push
    LIST_MAX.with(|c| {
        if len + 1 > c.get() {
            c.set(len + 1)
        }
    });
    if len >= cap {
        OVERFLOW.with(|o| {
            o.borrow_mut()
                .push(format!("push into unchecked move list at len={} capacity={}", len, cap))
        });
        panic!("verif-hook: unchecked move list overflow (len={}, capacity={})", len, cap);
    }
}

pub fn install() {
    verif_hooks::set_observer(Some(observer));
    verif_hooks::set_list_observer(Some(list_observer));
}

/// Turn the (costly) derived-state recomputation on/off; counting stays on.
pub fn set_check_derived(on: bool) {
    CHECK_DERIVED.with(|c| c.set(on));
}

pub fn take_drift() -> Vec<String> {
    DRIFT.with(|d| std::mem::take(&mut *d.borrow_mut()))
}

pub fn take_overflow() -> Vec<String> {
    OVERFLOW.with(|d| std::mem::take(&mut *d.borrow_mut()))
}

pub fn makes() -> u64 {
    MAKES.with(|c| c.get())
}
pub fn unmakes() -> u64 {
    UNMAKES.with(|c| c.get())
}
pub fn list_pushes() -> u64 {
    LIST_PUSHES.with(|c| c.get())
}
pub fn list_max() -> usize {
    LIST_MAX.with(|c| c.get())
}
pub fn list_cap() -> usize {
    LIST_CAP.with(|c| c.get())
}
