//! owlverif — runtime monitors for owlchess (see /verif/DESIGN.md).
#![allow(dead_code)]

mod chainlog;
mod conv;
mod ctx;
mod gen;
mod gentext;
mod hooks;
mod mfen;
mod model;
mod mon;
mod msan;
mod rng;
mod stream;

use ctx::{Ctx, Tier, Trace};
use std::time::Instant;

fn usage() -> ! {
    eprintln!(
        "usage:\n  owlverif selftest\n  owlverif run <Cxx> --tier quick|thorough --seed N --shard i/n --config NAME --scale F --out PATH [--trace none|stderr|file]\n  owlverif replay <Cxx> --config NAME --case CASE --out PATH\n  owlverif merge-fp FILE..."
    );
    std::process::exit(64);
}

struct Args {
    tier: Tier,
    seed: u64,
    shard: usize,
    nshards: usize,
    config: String,
    scale: f64,
    out: String,
    trace: String,
    case: Option<String>,
}

fn parse_args(rest: &[String]) -> Args {
    let mut a = Args {
        tier: Tier::Quick,
        seed: 1,
        shard: 0,
        nshards: 1,
        config: "rel".into(),
        scale: 1.0,
        out: "result.json".into(),
        trace: "none".into(),
        case: None,
    };
    let mut i = 0;
    while i < rest.len() {
        let k = rest[i].as_str();
        let v = rest.get(i + 1).cloned().unwrap_or_else(|| usage());
        match k {
            "--tier" => {
                a.tier = match v.as_str() {
                    "quick" => Tier::Quick,
                    "thorough" => Tier::Thorough,
                    _ => usage(),
                }
            }
            "--seed" => a.seed = v.parse().unwrap_or_else(|_| usage()),
            "--shard" => {
                let (x, y) = v.split_once('/').unwrap_or_else(|| usage());
                a.shard = x.parse().unwrap_or_else(|_| usage());
                a.nshards = y.parse().unwrap_or_else(|_| usage());
            }
            "--config" => a.config = v,
            "--scale" => a.scale = v.parse().unwrap_or_else(|_| usage()),
            "--out" => a.out = v,
            "--trace" => a.trace = v,
            "--case" => a.case = Some(v),
            _ => usage(),
        }
        i += 2;
    }
    a
}

fn merge_fp(files: &[String]) {
    let mut all: Vec<u64> = Vec::new();
    for f in files {
        if let Ok(bytes) = std::fs::read(f) {
            for ch in bytes.chunks_exact(8) {
                all.push(u64::from_le_bytes(ch.try_into().unwrap()));
            }
        }
    }
    all.sort_unstable();
    all.dedup();
    println!("{}", all.len());
}

fn main() {
    let argv: Vec<String> = std::env::args().collect();
    if argv.len() < 2 {
        usage();
    }
    match argv[1].as_str() {
        "selftest" => {
            ctx::install_panic_hook();
            match ctx::catch(mon::selftest::run) {
                Ok(Ok(n)) => {
                    println!("model self-test ok ({} checks)", n);
                }
                Ok(Err(e)) => {
                    println!("MODEL-SELFTEST-FAILED: {}", e);
                    std::process::exit(2);
                }
                Err(p) => {
                    println!("MODEL-SELFTEST-FAILED: panic {}", p);
                    std::process::exit(2);
                }
            }
        }
        "merge-fp" => merge_fp(&argv[2..]),
        "run" | "replay" => {
            if argv.len() < 3 {
                usage();
            }
            let prop = argv[2].clone();
            let a = parse_args(&argv[3..]);
            let trace = match a.trace.as_str() {
                "stderr" => Trace::Stderr,
                "file" => match std::fs::File::create(format!("{}.cur", a.out)) {
                    Ok(f) => Trace::File(f),
                    Err(_) => Trace::None,
                },
                _ => Trace::None,
            };
            ctx::install_panic_hook();
            hooks::install();
            // Under Miri the from-scratch recomputation after every apply/undo is kept only for the
            // properties that are about derived state; the observers still count events.
            if a.config == "miri" && !matches!(prop.as_str(), "C04" | "C05") {
                hooks::set_check_derived(false);
            }
            let mut c = Ctx::new(&prop, &a.config, a.tier, a.seed, a.shard, a.nshards, a.scale, trace);
            let t0 = Instant::now();
            let status = if argv[1] == "run" {
                match ctx::catch(|| mon::run(&mut c)) {
                    Ok(true) => "ok".to_string(),
                    Ok(false) => "unknown-property".to_string(),
                    Err(p) => format!("harness-panic: {}", p),
                }
            } else {
                c.is_replay = true;
                let case = a.case.clone().unwrap_or_else(|| usage());
                match ctx::catch(|| mon::replay(&mut c, &case)) {
                    Ok(true) => "ok".to_string(),
                    Ok(false) => "cannot-replay".to_string(),
                    Err(p) => format!("harness-panic: {}", p),
                }
            };
            c.feature_n("hook_make_events", hooks::makes());
            c.feature_n("hook_unmake_events", hooks::unmakes());
            c.feature_n("hook_list_pushes", hooks::list_pushes());
            c.feature_max("hook_list_max_len", hooks::list_max() as u64);
            let wall = t0.elapsed().as_secs_f64();
            if let Err(e) = c.write_result(&a.out, wall, &status) {
                eprintln!("cannot write {}: {}", a.out, e);
                std::process::exit(3);
            }
            if status != "ok" {
                eprintln!("owlverif: status {}", status);
                std::process::exit(3);
            }
        }
        _ => usage(),
    }
}
