#!/usr/bin/env python3
"""Prints the markdown table of seeded changes and the checks that caught them (from seeded/*/result.json)."""
import json, os
V = os.path.dirname(os.path.abspath(__file__))
rows = []
for d in sorted(os.listdir(os.path.join(V, "seeded"))):
    rp = os.path.join(V, "seeded", d, "result.json")
    mp = os.path.join(V, "seeded", d, "meta.json")
    if not os.path.exists(rp):
        continue
    r = json.load(open(rp)); m = json.load(open(mp)) if os.path.exists(mp) else {}
    tgt = m.get("property", "?")
    caught = r.get("caught_by", [])
    others = [c for c in caught if c != tgt]
    incon = [p for p, c in r.get("checks", {}).items() if c["exit"] not in (0, 1)]
    clause = ""
    if tgt in r.get("checks", {}) and r["checks"][tgt]["clauses"]:
        clause = r["checks"][tgt]["clauses"][0][:70]
    summary = m.get("summary") or m.get("needs", "")[:150]
    rows.append("| %s | %s | %s | %s | `%s` | %s |" % (d, tgt, summary.replace("|", "/"), "yes" if tgt in caught else "**no**", clause, ", ".join(others) or "-"))
print("| seed | target | what it needs to manifest | caught by target check (quick) | first clause | also caught by |")
print("|------|--------|---------------------------|------|------|------|")
print("\n".join(rows))
