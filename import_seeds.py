#!/usr/bin/env python3
"""Copies sub-agent deliverables /tmp/seedout/Cxx/{A,B} into /verif/seeded/Cxx-{A,B}/ (patch.diff, demo.rs, README.md, meta.json)."""
import json, os, shutil, sys
ids = [a for a in sys.argv[1:] if not a.startswith("--")] or ["C%02d" % i for i in range(1, 21)]
round2 = "--round2" in sys.argv
round3 = "--round3" in sys.argv
round4 = "--round4" in sys.argv
for pid in ids:
    for v in ("GH" if round4 else "EF" if round3 else "CD" if round2 else "AB"):
        src = "/tmp/%s/%s/%s" % ("seedout4" if round4 else "seedout3" if round3 else "seedout2" if round2 else "seedout", pid, v)
        if not os.path.exists(os.path.join(src, "patch.diff")):
            continue
        dst = "/verif/seeded/%s-%s" % (pid, v)
        os.makedirs(dst, exist_ok=True)
        for f in ("patch.diff", "demo.rs", "README.md"):
            if os.path.exists(os.path.join(src, f)):
                shutil.copy(os.path.join(src, f), os.path.join(dst, f))
        readme = open(os.path.join(dst, "README.md")).read() if os.path.exists(os.path.join(dst, "README.md")) else ""
        crate = "chess_base" if "chess_base/tests" in readme else "chess"
        meta_path = os.path.join(dst, "meta.json")
        meta = json.load(open(meta_path)) if os.path.exists(meta_path) else {}
        meta.update({"property": pid, "origin": ("fourth round (told to stay out of /verif): " if round4 else "third round (told to stay out of /verif): " if round3 else "second round: " if round2 else "") + "written by an independent sub-agent that was given only the property text and a scratch worktree" + (" plus one-line summaries of the earlier changes to avoid repeats" if (round2 or round3 or round4) else ""), "needs": " ".join(readme.split())[:700], "demo_crate": crate})
        meta.setdefault("also", [])
        json.dump(meta, open(meta_path, "w"), indent=1)
        print("imported", dst)
