#!/usr/bin/env python3
"""Copies sub-agent deliverables /tmp/seedout/Cxx/{A,B} into /verif/seeded/Cxx-{A,B}/ (patch.diff, demo.rs, README.md, meta.json)."""
import json, os, shutil, sys
ids = sys.argv[1:] or ["C%02d" % i for i in range(1, 21)]
for pid in ids:
    for v in "AB":
        src = "/tmp/seedout/%s/%s" % (pid, v)
        if not os.path.exists(os.path.join(src, "patch.diff")):
            continue
        dst = "/verif/seeded/%s-%s" % (pid, v)
        os.makedirs(dst, exist_ok=True)
        for f in ("patch.diff", "demo.rs", "README.md"):
            if os.path.exists(os.path.join(src, f)):
                shutil.copy(os.path.join(src, f), os.path.join(dst, f))
        readme = open(os.path.join(dst, "README.md")).read() if os.path.exists(os.path.join(dst, "README.md")) else ""
        crate = "chess_base" if "chess_base/tests" in readme else "chess"
        meta_path = os.path.join(dst, "meta.json")
        meta = json.load(open(meta_path)) if os.path.exists(meta_path) else {}
        meta.update({"property": pid, "origin": "written by an independent sub-agent that saw only the property text and a scratch worktree", "needs": " ".join(readme.split())[:700], "demo_crate": crate})
        meta.setdefault("also", [])
        json.dump(meta, open(meta_path, "w"), indent=1)
        print("imported", dst)
