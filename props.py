"""Per-property run plans and evidence texts for ./check.

plan entries: (configuration, number of shard processes, work scale).  The scale multiplies the
monitor's nominal per-tier budget; Miri gets a tiny fraction because it is ~10^4 times slower.
"""

MODEL_ASSUMPTIONS = [
    "the harness's reference model of chess (model.rs) is correct; it is anchored to published perft counts and a hand-checked SAN/outcome table that are re-run before every check (failure => inconclusive)",
    "conversions between model and library values (conv.rs) go through file/rank indices and piece letters only; those primitives are checked exhaustively by C20",
    "the off-by-default verif-hooks feature only observes (apply/undo observer, move-list observer, read-only accessors)",
    "verdicts cover the executions produced (seeded generators + enumerated sub-spaces), not all inputs",
]

Q = [("dbg", 16, 0.25), ("rel", 16, 1.0)]
T = [("dbg", 16, 0.1), ("rel", 16, 1.0), ("asan", 16, 0.1), ("miri", 16, 0.00002)]
T_MIRI_SCALE = 0.00002


def plan(quick=None, thorough=None):
    return {"quick": quick or Q, "thorough": thorough or T}


PROPS = {
    "C01": dict(
        plan(),
        rule="positions come from fixed corner FENs (+mirrors), seven structured families (en passant with kings/sliders on the capture lines, pins, checks, castling, promotion, few-men material, dense queens), random game walks, scattered non-reachable positions and the two-kings-plus-one-man space; a position is non-trivial if it has a pseudo-legal move that is illegal, is in check, or has a special move available; distinct = distinct (squares, side, rights, mark) fingerprint",
        explanation="held on the positions listed: five legal generators compared as multisets with the model's legal set and its capture/promotion filters; validate, is_legal_unchecked and make+is_opponent_king_attacked compared with membership on every pseudo-legal move; validate on all well-formed tuples on a 1-in-8 sample and on near-miss tuples everywhere",
        assumptions=MODEL_ASSUMPTIONS,
        required_features={"quick": ["ep_illegal", "ep_legal", "castle_legal", "castle_illegal", "promo_legal", "pos_double_check", "full_tuple_sweeps"]},
    ),
    "C03": dict(plan(), rule="every legal move of every streamed position (same sources as C01); non-trivial = position with a special move or clock >= 99; distinct = full position fingerprint", explanation="successor of every legal move compared field by field (64 squares, side, rights, mark, both counters) with the model's apply(); as_fen of the successor compared with the model writer", assumptions=MODEL_ASSUMPTIONS,
        required_features={"quick": ["mv_castle_k", "mv_castle_q", "mv_enpassant_capture", "mv_promo_capture", "promo_captures_home_rook_with_right", "king_captures_home_rook_with_right", "rook_takes_rook_home_to_home", "clock_99_to_100", "clock_149_to_150", "clock_saturated", "number_saturated", "ep_white_edge", "ep_black_edge"]}),
    "C04": dict(plan(), rule="every pseudo-legal move (legal or leaving the king attacked) and the null move of every streamed position, plus random nested apply/undo walks of depth <= 8; non-trivial = position where some semilegal move is illegal or special; distinct = full position fingerprint", explanation="full snapshot (raw + hash + 16 occupancy sets) before make_move_unchecked compared with the state after the matching unmake; refused make_raw (TryUnchecked rollback) and refused Uci make_raw must leave the board identical; nested LIFO walks compare at every level", assumptions=["snapshot oracle: no reference model is involved in the verdict (the model only supplies the moves to try)"] + MODEL_ASSUMPTIONS[2:],
        required_features={"quick": ["null_moves", "pos_with_illegal_semilegal_undone", "nested_illegal_rollbacks", "undo_EnPassant", "undo_CastleK", "undo_CastleQ", "undo_PromoQ", "undo_at_counter_limit"]}),
    "C05": dict(plan(), rule="streamed positions with every legal successor through make_move / Uci / San entry points, refused applications, chain push/pop histories, walkers and nested unchecked walks, all under the apply/undo observer; non-trivial = position with a special move; distinct = (squares, side, rights, mark) fingerprint", explanation="observer hook inside do_make_move/do_unmake_move recomputes hash and the 16 sets from the squares after EVERY internal apply/undo; boundary checks on every returned board; transposition table (same position => same hash); from-scratch hash shown XOR-linear in the stated features and blind to counters; all single-feature key differences enumerated", assumptions=MODEL_ASSUMPTIONS,
        required_features={"quick": ["hook_make_events", "hook_unmake_events", "chain_histories", "path_EnPassant_capture", "path_CastleK", "path_CastleQ", "key_differences_checked"]}),
    "C06": dict(plan(), rule="exhaustive Move::new sweep (532,480 tuples) plus streamed positions; per position all kinds x destinations from every own man, and on a 1-in-4 sample every well-formed tuple of both colours; non-trivial = position in check or with a special pseudo-legal move", explanation="five semilegal generators compared as multisets with the model's pseudo-legal set and its filters; partitions compared as multiset sums; is_semilegal on tuples compared with membership; Move::new compared with an independent geometric predicate on every tuple", assumptions=MODEL_ASSUMPTIONS,
        required_features={"quick": ["full_tuple_sweeps", "pseudo_castle", "pseudo_castle_into_attack", "pseudo_ep", "castle_right_but_unavailable", "wellformed_tuples_checked"]}),
    "C07": dict(plan(), rule="streamed positions plus a few-men material x clock-threshold grid and the three-man space; non-trivial = position with an outcome, <= 3 men besides kings, or clock >= 99", explanation="calc_outcome, calc_draw_simple, has_legal_moves, is_check compared with the model's classification (precedence included)", assumptions=MODEL_ASSUMPTIONS,
        required_features={"quick": ["checkmate", "stalemate", "stalemate_with_pseudo_moves", "insufficient", "moves75", "moves50", "clock_99", "clock_100", "clock_149", "clock_150", "forced_with_draw_reason_also_applying", "no_legal_move_but_pseudo_en_passant"]}),
    "C08": dict(plan(), rule="valid positions (stream), arbitrary raw boards with rank-consistent marks (random + exhaustive sub-spaces), and FEN texts (hand-written variants + mutated valid records); distinct = full position / text fingerprint", explanation="two writers (library, model) and two readers must agree in all four pairings; strict canonical-form recogniser on every produced text; parse-format-parse stability for every accepted text", assumptions=MODEL_ASSUMPTIONS,
        required_features={"quick": ["with_mark", "with_edge_mark", "five_digit_counter", "text_accepted_noncanonical", "exh_counter_values", "exh_rank_patterns"]}),
    "C10": dict(plan(), rule="every pseudo-legal move of streamed positions (round trip) and the complete 20,480-string space on a sample of positions (all positions with marks or rights are oversampled); non-trivial = position with a special pseudo-legal move", explanation="to_string/from_uci/into_move round trip incl. kind; semilegal and legal readers compared with existence of a model move with the same squares and promotion; null move refused through seven entry points", assumptions=MODEL_ASSUMPTIONS,
        required_features={"quick": ["string_space_sweeps", "roundtrip_EnPassant", "roundtrip_CastleK", "roundtrip_CastleQ", "roundtrip_Double", "roundtrip_PromoN", "king_at_home_without_castling"]}),
    "C11": dict(plan(), rule="raw boards: scattered and family positions (valid or not), one-mutation neighbours of valid positions (17th man, missing/extra king, back-rank pawn, mark on each of 64 squares, side flip, 16 rights sets, displaced home pieces, blocked/replaced marked pawn), uniformly random cells, three-man x rights x marks; non-trivial = rejected board or board changed by normalisation", explanation="acceptance compared with the model's set of applicable rejection conditions; reported reason must be in that set (with payload); accepted result compared with the model normalisation; idempotence and derived state checked", assumptions=MODEL_ASSUMPTIONS,
        required_features={"quick": ["reason_invalid_enpassant", "reason_too_many_pieces_white", "reason_too_many_pieces_black", "reason_no_king_white", "reason_no_king_black", "reason_too_many_kings_white", "reason_too_many_kings_black", "reason_invalid_pawn", "reason_opponent_king_attacked", "rights_dropped", "mark_dropped", "mark_kept", "several_reasons_apply"]}),
    "C16": dict(plan(), rule="all 128 (square, colour) queries on every streamed position and on the three-man space; distinct = (squares, side, rights, mark) fingerprint of positions with at least one attacked square", explanation="is_cell_attacked, cell_attackers, is_check, checkers compared with ray-walking from each man; is_opponent_king_attacked false on every validated board", assumptions=MODEL_ASSUMPTIONS,
        required_features={"quick": ["double_check", "white_pawn_attacker", "black_pawn_attacker", "square_with_3plus_attackers"]}),
    "C18": dict(plan(), rule="every streamed position against its colour-swapped vertical mirror, and (without castling rights) its left-right mirror; non-trivial = position that is not its own image and has a special move or check", explanation="metamorphic: library against library on mirrored inputs (legal and semilegal move sets, is_check, has_legal_moves, calc_outcome with winner swapped, attack maps); no reference model in the verdict", assumptions=["the harness's mirror maps on positions and moves are correct (they are involutions, checked in the self-test)"] + MODEL_ASSUMPTIONS[2:],
        required_features={"quick": ["vmirror_pairs", "hmirror_pairs", "black_to_move", "with_mark", "with_castling_rights", "pos_with_special_move"]}),
    "C12": dict(plan(), rule="texts: every string of <= 3 symbols over a 45-symbol set through all entry points (position-dependent ones in 24 positions), 4-5 symbol strings over 14-symbol UCI/SAN sub-alphabets, valid FEN/UCI/SAN/list/square/cell/colour/castling texts with all truncations and multi-byte splices at every boundary, random single/double edits, random UTF-8, 64 KiB inputs; distinct = distinct text", explanation="each call runs under catch_unwind with a silent panic hook; a panic is a violation whose signature is (entry point, panic site); every returned value is formatted and parsed back", assumptions=["a parser abort that is not a Rust panic would kill the shard and be reported as inconclusive unless a sanitizer names it"] + MODEL_ASSUMPTIONS[3:],
        required_features={"quick": ["accepted_fen", "accepted_uci", "accepted_san", "accepted_coord", "accepted_cell", "accepted_color", "accepted_castling", "accepted_uci_list", "accepted_san_in_position", "exhaustive_short_strings", "truncations_and_splices", "long_inputs"]}),
}

LEVEL_TEXT = {}
TECHNIQUE = {}
_PENDING = "monitor not built yet in this round (planned in DESIGN.md section 4); no check is registered"
NOT_APPLICABLE = {("C%02d" % i): _PENDING for i in range(1, 21)}
