"""Per-property run plans and evidence texts for ./check.

plan entries: (configuration, number of shard processes, work scale).  The scale multiplies the
monitor's nominal per-tier budget; Miri gets a tiny fraction because it is ~10^4 times slower.
"""

MODEL_ASSUMPTIONS = [
    "the harness's reference model of chess (model.rs) is correct; it is anchored to published perft counts and a hand-checked SAN/outcome table that are re-run before every check (failure => inconclusive)",
    "conversions between model and library values (conv.rs) go through file/rank indices and piece letters only; those primitives are checked exhaustively by C20",
    "the off-by-default verif-hooks feature only observes (apply/undo observer, move-list observer, read-only accessors)",
    "verdicts cover the executions produced (seeded generators + enumerated sub-spaces), not all inputs",
]

Q = [("dbg", 16, 0.25), ("rel", 16, 1.0)]
T = [("dbg", 16, 0.1), ("rel", 16, 1.0), ("asan", 16, 0.1), ("miri", 16, 0.00002)]
T_MIRI_SCALE = 0.00002


def plan(quick=None, thorough=None):
    return {"quick": quick or Q, "thorough": thorough or T}


PROPS = {
    "C01": dict(
        plan(),
        rule="positions come from fixed corner FENs (+mirrors), seven structured families (en passant with kings/sliders on the capture lines, pins, checks, castling, promotion, few-men material, dense queens), random game walks, scattered non-reachable positions and the two-kings-plus-one-man space; a position is non-trivial if it has a pseudo-legal move that is illegal, is in check, or has a special move available; distinct = distinct (squares, side, rights, mark) fingerprint",
        explanation="held on the positions listed: five legal generators compared as multisets with the model's legal set and its capture/promotion filters; validate, is_legal_unchecked and make+is_opponent_king_attacked compared with membership on every pseudo-legal move; validate on all well-formed tuples on a 1-in-8 sample and on near-miss tuples everywhere",
        assumptions=MODEL_ASSUMPTIONS,
        required_features={"quick": ["ep_illegal", "ep_legal", "castle_legal", "castle_illegal", "promo_legal", "pos_double_check", "full_tuple_sweeps"]},
    ),
}

LEVEL_TEXT = {}
TECHNIQUE = {}
_PENDING = "monitor not built yet in this round (planned in DESIGN.md section 4); no check is registered"
NOT_APPLICABLE = {("C%02d" % i): _PENDING for i in range(1, 21)}
