#!/usr/bin/env python3
"""Regenerates MANIFEST.json from props.py (run after editing props.py)."""
import json, os, subprocess, sys
VERIF = os.path.dirname(os.path.abspath(__file__))
sys.path.insert(0, VERIF)
from props import PROPS, NOT_APPLICABLE, LEVEL_TEXT, TECHNIQUE  # noqa

hook_commits = ["d86126f"]
checks = []
for pid in sorted(PROPS):
    spec = PROPS[pid]
    checks.append({
        "property_id": pid,
        "quick_cmd": "./check %s --tier quick" % pid,
        "thorough_cmd": "./check %s --tier thorough" % pid,
        "evidence_file": "/verif/evidence/%s.json" % pid,
        "replay_cmd_template": "./check %s --replay {path}" % pid,
        "engine": "owlverif",
        "level_claimed": {
            "category": "exploration",
            "text": LEVEL_TEXT.get(pid, spec["explanation"]),
            "design_ref": "DESIGN.md section 4, %s" % pid,
        },
        "level_note": "trusted base: " + "; ".join(spec["assumptions"]),
        "technique": TECHNIQUE.get(pid, "runtime monitoring: reference-model and invariant-hook monitors over seeded hostile workloads under debug/release/ASan/Miri builds"),
    })
manifest = {
    "version": 1,
    "setup_cmd": "./setup.sh",
    "hooks": {
        "guard": "verif-hooks",
        "enable": "cargo feature of the owlchess crate; the harness depends on owlchess = { path = \"/repo/chess\", features = [\"verif-hooks\"] }",
        "baseline_off_cmd": "cd /repo && cargo test --workspace --no-fail-fast --offline",
        "source_commits": hook_commits,
        "add_only": True,
    },
    "engines": [{
        "name": "owlverif",
        "path": "/verif/harness",
        "serves_properties": sorted(PROPS),
        "kind_free_text": "Rust harness: independent reference model of chess + invariant hooks + offline history checkers + metamorphic monitors, run as sharded single-threaded processes under debug (overflow/debug assertions), release, AddressSanitizer and Miri builds; orchestrated by ./check",
    }],
    "checks": checks,
    "not_applicable": [{"property_id": k, "reason": v} for k, v in sorted(NOT_APPLICABLE.items()) if k not in PROPS],
    "notes": "All checks rebuild the harness against /repo's working tree (cargo path dependency). VERIF_SEED seeds every random choice; VERIF_TIER selects the tier when --tier is absent. Exit 2 + 'INCONCLUSIVE:' = no verdict (never a VIOLATION line).",
}
with open(os.path.join(VERIF, "MANIFEST.json"), "w") as f:
    json.dump(manifest, f, indent=1)
    f.write("\n")
print("MANIFEST.json: %d checks, %d not_applicable" % (len(checks), len(manifest["not_applicable"])))
