#!/usr/bin/env python3
"""Seeded-change audit: ./audit.py [--all-checks] [--jobs N] [--tier quick] <seed-name>...

For each /verif/seeded/<name>/ (patch.diff, optional demo.rs, meta.json) this
  1. makes a scratch git worktree of /repo under /tmp, outside /repo and /verif,
  2. runs the demo (if any) on the clean tree (must pass), applies the patch,
  3. runs the repository's own test suite (must still pass) and the demo (must now fail),
  4. runs ./check for the targeted properties (meta.json "property" / "also") or for all 20
     against the scratch tree (OWLVERIF_REPO), without touching /repo or /verif/evidence,
  5. writes seeded/<name>/result.json and removes the worktree with its build output.
"""
import concurrent.futures
import json
import os
import re
import shutil
import subprocess
import sys
import time

VERIF = os.path.dirname(os.path.abspath(__file__))
ALL = ["C%02d" % i for i in range(1, 21)]


def sh(cmd, cwd=None, env=None, timeout=None):
    p = subprocess.run(cmd, cwd=cwd, env=env, stdout=subprocess.PIPE, stderr=subprocess.STDOUT, text=True, timeout=timeout, errors="replace")
    return p.returncode, p.stdout


def audit(name, all_checks, tier, configs):
    sdir = os.path.join(VERIF, "seeded", name)
    meta = {}
    if os.path.exists(os.path.join(sdir, "meta.json")):
        meta = json.load(open(os.path.join(sdir, "meta.json")))
    wt = "/tmp/audit_%s" % re.sub(r"[^A-Za-z0-9_-]", "_", name)
    res = {"seed": name, "property": meta.get("property"), "checks": {}, "at": time.strftime("%Y-%m-%dT%H:%M:%S")}
    sh(["git", "-C", "/repo", "worktree", "remove", "--force", wt])
    shutil.rmtree(wt, ignore_errors=True)
    rc, out = sh(["git", "-C", "/repo", "worktree", "add", "-q", "--detach", wt, "HEAD"])
    if rc != 0:
        res["error"] = "worktree: " + out[-300:]
        return res
    try:
        env = dict(os.environ, CARGO_NET_OFFLINE="true")
        demo = os.path.join(sdir, "demo.rs")
        demo_crate = meta.get("demo_crate", "chess")
        demo_dst = os.path.join(wt, demo_crate, "tests", "demo_seed.rs")
        pkg = "owlchess" if demo_crate == "chess" else "owlchess_base"
        rel = ["--release"] if meta.get("demo_release") else []
        if os.path.exists(demo):
            os.makedirs(os.path.dirname(demo_dst), exist_ok=True)
            shutil.copy(demo, demo_dst)
            rc, out = sh(["cargo", "test", "--offline"] + rel + ["-p", pkg, "--test", "demo_seed"], cwd=wt, env=env, timeout=1800)
            res["demo_passes_on_clean_tree"] = rc == 0
            os.remove(demo_dst)
        rc, out = sh(["git", "apply", os.path.join(sdir, "patch.diff")], cwd=wt)
        if rc != 0:
            res["error"] = "patch does not apply: " + out[-300:]
            return res
        rc, out = sh(["cargo", "test", "--workspace", "--no-fail-fast", "--offline"], cwd=wt, env=env, timeout=3600)
        res["repo_tests_pass_with_patch"] = rc == 0
        if rc != 0:
            res["repo_tests_tail"] = out[-1500:]
        if os.path.exists(demo):
            shutil.copy(demo, demo_dst)
            rc, out = sh(["cargo", "test", "--offline"] + rel + ["-p", pkg, "--test", "demo_seed"], cwd=wt, env=env, timeout=1800)
            res["demo_fails_with_patch"] = rc != 0
            os.remove(demo_dst)
        shutil.rmtree(os.path.join(wt, "target"), ignore_errors=True)
        props = ALL if all_checks else [p for p in [meta.get("property")] + meta.get("also", []) if p]
        cenv = dict(os.environ, OWLVERIF_REPO=wt, OWLVERIF_TARGET=os.path.join(wt, "vt"), OWLVERIF_WORK=os.path.join(wt, "work"))
        for p in props:
            cmd = [os.path.join(VERIF, "check"), p, "--tier", tier]
            if configs:
                cmd += ["--configs", configs]
            t0 = time.time()
            rc, out = sh(cmd, cwd=VERIF, env=cenv, timeout=4 * 3600)
            clauses = sorted(set(re.findall(r"clause=(\S+)", out)))
            first_case = re.search(r"case=(.*)", out)
            res["checks"][p] = {
                "exit": rc,
                "verdict": {0: "silent", 1: "VIOLATION", 2: "inconclusive"}.get(rc, "error"),
                "clauses": clauses[:8],
                "first_case": first_case.group(1)[:200] if first_case else None,
                "wall_s": round(time.time() - t0, 1),
            }
            if rc not in (0, 1):
                res["checks"][p]["tail"] = out[-800:]
        # keep the verdicts of checks not re-run this time (from an earlier audit of the same seed)
        old_path = os.path.join(sdir, "result.json")
        if not all_checks and os.path.exists(old_path):
            try:
                old = json.load(open(old_path))
                for p, r in old.get("checks", {}).items():
                    if p not in res["checks"]:
                        r = dict(r)
                        r.setdefault("from_earlier_audit", old.get("at"))
                        res["checks"][p] = r
            except Exception:
                pass
        res["caught_by"] = sorted(p for p, r in res["checks"].items() if r["exit"] == 1)
    finally:
        sh(["git", "-C", "/repo", "worktree", "remove", "--force", wt])
        shutil.rmtree(wt, ignore_errors=True)
    with open(os.path.join(sdir, "result.json"), "w") as f:
        json.dump(res, f, indent=1)
        f.write("\n")
    return res


def main():
    args = sys.argv[1:]
    all_checks = False
    jobs = 3
    tier = "quick"
    configs = None
    names = []
    i = 0
    while i < len(args):
        if args[i] == "--all-checks":
            all_checks = True
        elif args[i] == "--jobs":
            jobs = int(args[i + 1])
            i += 1
        elif args[i] == "--tier":
            tier = args[i + 1]
            i += 1
        elif args[i] == "--configs":
            configs = args[i + 1]
            i += 1
        else:
            names.append(args[i])
        i += 1
    if not names:
        names = sorted(d for d in os.listdir(os.path.join(VERIF, "seeded")) if os.path.exists(os.path.join(VERIF, "seeded", d, "patch.diff")))
    with concurrent.futures.ThreadPoolExecutor(max_workers=jobs) as ex:
        for r in ex.map(lambda n: audit(n, all_checks, tier, configs), names):
            flags = "tests_pass=%s demo_clean=%s demo_fails=%s" % (r.get("repo_tests_pass_with_patch"), r.get("demo_passes_on_clean_tree"), r.get("demo_fails_with_patch"))
            print("%-28s target=%s %s caught_by=%s %s" % (r["seed"], r.get("property"), flags, ",".join(r.get("caught_by", [])) or "-", r.get("error", "")), flush=True)


if __name__ == "__main__":
    main()
