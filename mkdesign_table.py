#!/usr/bin/env python3
"""Regenerates the audit table between the markers in DESIGN.md."""
import os, re, subprocess
V = os.path.dirname(os.path.abspath(__file__))
table = subprocess.run([os.path.join(V, "mkaudit_table.py")], stdout=subprocess.PIPE, text=True).stdout
p = os.path.join(V, "DESIGN.md")
s = open(p).read()
s = re.sub(r"<!-- AUDIT-TABLE-BEGIN -->.*<!-- AUDIT-TABLE-END -->", "<!-- AUDIT-TABLE-BEGIN -->\n" + table + "<!-- AUDIT-TABLE-END -->", s, flags=re.S)
open(p, "w").write(s)
print("table rows:", table.count("\n") - 2)
